package c03

// Join: a real node.ManyToOneNode with k = 2 or 3 in-ports, each fed by its own source out-port and
// requester (one process); its out-port goes to sink 0, its error port to sink 1:
//
//	requester 0 → S0 ─ in[0] ┐
//	requester 1 → S1 ─ in[1] ├ N ─ out → D0 (sink 0)
//	requester 2 → S2 ─ in[2] ┘   └ err → D1 (sink 1)
//
// The node groups the j-th request of every input (packet.ReadGroup).  A request that does not
// complete its group is answered with itself at once; the request that completes a group goes
// through the action – which returns a fresh packet (payload = min·1000 + max of the group) on the
// out port, or on the error port (a member flagged `e`), or nil (a member flagged `n`: the
// completing request is answered with itself) – and its requester waits for the sink's answer.
// The out/err writers are shared by the forward loops of all inputs.
//
// Crash points: every prefix of a quiesced schedule {requester i writes, sink s answers its oldest
// request, raw requester i receives}.  Quiesced: every write has been seen to take effect (its
// response, or its packet at the sink) before the next event – except a request that is answered
// with itself but queued behind an older request of the same input; while one is queued no other
// input writes (`jnSim.shadowed`), so the grouping never depends on the Go scheduler.  Teardown actions (singly and in sampled pairs): the
// upstream out-port of ONE input closed; ONE in-port of the join closed; ONE in-reader closed; the
// join's out-port closed; the downstream in-port closed; process exit; node close.  Afterwards the
// sinks answer what they hold, the requesters collect, and every input that can still write
// writes one more request.
//
// Oracle only (Go reference; Uniflow.Teardown's relay has one input).  Per request, what the
// statement of C03 demands:
//   - its own path is torn down while the response is owed (its source writer, the in-port/in-reader
//     it went through, the out-port / sink it waits at, the process, the node): the dropped error – owed
//     is also a response that is determined but queued in the node behind an older request of the same
//     input that still waits (a node answers each in-reader in read order);
//   - otherwise its real answer: itself (incomplete group, nil from the action), the sink's answer
//     derived from the packet the action returned – whenever it comes –, or that packet itself when
//     the write downstream is refused (out-port / sink torn down earlier);
//   - every accepted request exactly one response, in order per requester, within the watchdog; after
//     process exit nothing is owed any more.
// A wrong result for a request whose path was not torn down is class `unaffected`.
//
// Before the schedule every input completes one group (warm-up): the forward loop of every input
// has then opened the shared out-writer, as in a running workflow.

import (
	"fmt"
	"runtime"
	"strconv"
	"strings"
	"sync"
	"time"

	"github.com/siyul-park/uniflow/pkg/node"
	"github.com/siyul-park/uniflow/pkg/packet"
	"github.com/siyul-park/uniflow/pkg/port"
	"github.com/siyul-park/uniflow/pkg/process"
	"github.com/siyul-park/uniflow/pkg/types"

	"verifharness/lib"
)

type jnEv struct {
	kind byte // 'W' requester i writes (flag 0, 'n', 'e'), 'A' sink s answers its oldest request, 'R' raw requester i receives
	i    int
	flag byte
	err  bool
}

type jnPlan struct {
	id     int
	k      int
	kinds  []string
	events []jnEv
}

type jnAction struct {
	what string // srcport inport reader outport sinkport exit node
	i    int
}

func (a jnAction) name() string {
	switch a.what {
	case "srcport", "inport", "reader":
		return fmt.Sprintf("%s %d", a.what, a.i)
	}
	return a.what
}

type jnCrash struct {
	prefix int
	acts   []jnAction
}

func (p *jnPlan) describe() string {
	return fmt.Sprintf("join: %d requesters (%s) → own source out-port → ManyToOneNode with %d in-ports → out: sink 0, error: sink 1", p.k, strings.Join(p.kinds, " "), p.k)
}

func jnEvents(es []jnEv) string {
	var out []string
	for _, e := range es {
		switch e.kind {
		case 'W':
			s := "W" + strconv.Itoa(e.i)
			if e.flag != 0 {
				s += string(e.flag)
			}
			out = append(out, s)
		case 'R':
			out = append(out, "R"+strconv.Itoa(e.i))
		case 'A':
			s := "A" + strconv.Itoa(e.i)
			if e.err {
				s += "e"
			}
			out = append(out, s)
		}
	}
	return strings.Join(out, " ")
}

func (c jnCrash) describe() string {
	var names []string
	for _, a := range c.acts {
		names = append(names, a.name())
	}
	return fmt.Sprintf("after %d events; actions: %s; then every input that can still write writes one more request", c.prefix, strings.Join(names, " + "))
}

// jnGroups is packet.ReadGroup as a reference: the j-th request of every input forms group j.
type jnGroups struct {
	k     int
	slots [][]*jnReq
}

// read records request q of input i; when it completes the oldest group, the group is returned.
func (g *jnGroups) read(i int, q *jnReq) []*jnReq {
	head := -1
	for j, s := range g.slots {
		if s[i] == nil {
			head = j
			break
		}
	}
	if head < 0 {
		g.slots = append(g.slots, make([]*jnReq, g.k))
		head = len(g.slots) - 1
	}
	g.slots[head][i] = q
	if head == 0 {
		for _, m := range g.slots[0] {
			if m == nil {
				return nil
			}
		}
		grp := g.slots[0]
		g.slots = g.slots[1:]
		return grp
	}
	return nil
}

// route: where the action sends a complete group (-1: it returns nil), and the payload it gives it.
func jnRoute(grp []*jnReq) (sink, pay int) {
	lo, hi := grp[0].v, grp[0].v
	sink = 0
	for _, m := range grp {
		lo, hi = min(lo, m.v), max(hi, m.v)
	}
	for _, m := range grp {
		if m.flag == 'e' {
			return 1, lo*1000 + hi
		}
	}
	for _, m := range grp {
		if m.flag == 'n' {
			return -1, 0
		}
	}
	return 0, lo*1000 + hi
}

type jnReq struct {
	v      int
	i      int
	flag   byte
	when   string // warm-up pre post
	sink   int    // where it waits (-1: nowhere)
	pay    int
	expect string // "" while the sink's answer is awaited
	hard   bool   // its own path was torn down while the response was owed
	result string
}

// jnSim tracks which schedules the requesters can follow (generator and corpus parser).
type jnSim struct {
	k     int
	kinds []string
	g     jnGroups
	reqs  [][]*jnReq // per input, in order
	taken []int      // per input: responses that have left the node
	avail []int
	held  [2][]*jnReq
	nextV int
}

func newJnSim(k int, kinds []string) *jnSim {
	return &jnSim{k: k, kinds: kinds, g: jnGroups{k: k}, reqs: make([][]*jnReq, k), taken: make([]int, k), avail: make([]int, k), nextV: 1}
}

func (s *jnSim) settle(i int) {
	for s.taken[i] < len(s.reqs[i]) && s.reqs[i][s.taken[i]].expect != "" {
		s.taken[i]++
		if s.kinds[i] == "raw" {
			s.avail[i]++
		}
	}
}

// shadowed: input i has a request whose answer is determined (itself) but which is queued in the node
// behind an older request of the same input that still waits at a sink.  Nothing tells the harness
// when the forward loop of input i has read such a request, so no OTHER input may write until it has
// been passed up: the order in which two forward loops reach the ReadGroup decides which request
// completes the group.
func (s *jnSim) shadowed(i int) bool {
	for _, q := range s.reqs[i][s.taken[i]:] {
		if q.expect != "" {
			return true
		}
	}
	return false
}

func (s *jnSim) canW(i int) bool {
	if i < 0 || i >= s.k {
		return false
	}
	for j := 0; j < s.k; j++ {
		if j != i && s.shadowed(j) {
			return false
		}
	}
	un := len(s.reqs[i]) - s.taken[i]
	if s.kinds[i] == "raw" {
		return un+s.avail[i] < 2
	}
	return un == 0
}

func (s *jnSim) w(i int, flag byte) {
	q := &jnReq{v: s.nextV, i: i, flag: flag, sink: -1}
	s.nextV++
	s.reqs[i] = append(s.reqs[i], q)
	if grp := s.g.read(i, q); grp == nil {
		q.expect = "self"
	} else if sink, _ := jnRoute(grp); sink < 0 {
		q.expect = "self"
	} else {
		q.sink = sink
		s.held[sink] = append(s.held[sink], q)
	}
	s.settle(i)
}

func (s *jnSim) canA(sink int) bool { return sink >= 0 && sink < 2 && len(s.held[sink]) > 0 }

func (s *jnSim) a(sink int) {
	q := s.held[sink][0]
	s.held[sink] = s.held[sink][1:]
	q.expect = "answered"
	s.settle(q.i)
}

func (s *jnSim) canR(i int) bool { return i >= 0 && i < s.k && s.kinds[i] == "raw" && s.avail[i] > 0 }
func (s *jnSim) r(i int)         { s.avail[i]-- }

func (s *jnSim) run(es []jnEv) (bad int) {
	for n, e := range es {
		switch e.kind {
		case 'W':
			if !s.canW(e.i) {
				return n
			}
			s.w(e.i, e.flag)
		case 'A':
			if !s.canA(e.i) {
				return n
			}
			s.a(e.i)
		case 'R':
			if !s.canR(e.i) {
				return n
			}
			s.r(e.i)
		}
	}
	return -1
}

// ---------------------------------------------------------------- the live workflow

type jnWF struct {
	plan  *jnPlan
	proc  *process.Process
	srcs  []*port.OutPort
	nd    *node.ManyToOneNode
	ins   []*port.InPort
	inR   []*packet.Reader
	sinkP [2]*port.InPort
	rs    []*requester

	mu    sync.Mutex
	sinkR [2]*packet.Reader
	flags map[int]byte
	avail []int

	arrCh   chan arrival
	availCh chan struct{}

	g         jnGroups
	reqs      [][]*jnReq
	delivered []int
	held      [2][]*jnReq
	nextV     int

	tornIn    []bool // the path of input i is torn down
	ownClosed []bool // requester i's own writer is closed
	severed   []bool // input i cannot write any more
	tornSink  [2]bool

	trace []string
	fails []string
}

func (f *jnWF) fail(class, format string, a ...any) {
	f.fails = append(f.fails, class+"\t"+fmt.Sprintf(format, a...))
}

func (f *jnWF) log(format string, a ...any) { f.trace = append(f.trace, fmt.Sprintf(format, a...)) }

func jnBuild(p *jnPlan) (f *jnWF, err string) {
	k := p.k
	f = &jnWF{plan: p, flags: map[int]byte{}, avail: make([]int, k), arrCh: make(chan arrival, 64), availCh: make(chan struct{}, 64),
		g: jnGroups{k: k}, reqs: make([][]*jnReq, k), delivered: make([]int, k), nextV: 1,
		tornIn: make([]bool, k), ownClosed: make([]bool, k), severed: make([]bool, k)}
	f.nd = node.NewManyToOneNode(func(_ *process.Process, pcks []*packet.Packet) (*packet.Packet, *packet.Packet) {
		lo, hi := payloadOf(pcks[0]), payloadOf(pcks[0])
		var flag byte
		f.mu.Lock()
		for _, pck := range pcks {
			v := payloadOf(pck)
			lo, hi = min(lo, v), max(hi, v)
			switch f.flags[v] {
			case 'e':
				flag = 'e'
			case 'n':
				if flag == 0 {
					flag = 'n'
				}
			}
		}
		f.mu.Unlock()
		out := packet.New(types.NewInt64(int64(lo*1000 + hi)))
		switch flag {
		case 'e':
			return nil, out
		case 'n':
			return nil, nil
		}
		return out, nil
	})
	for i := 0; i < k; i++ {
		f.ins = append(f.ins, f.nd.In(node.PortWithIndex(node.PortIn, i)))
	}
	for s, o := range []*port.OutPort{f.nd.Out(node.PortOut), f.nd.Out(node.PortError)} {
		s := s
		in := port.NewIn()
		in.AddListener(port.ListenFunc(func(proc *process.Process) {
			rd := in.Open(proc)
			f.mu.Lock()
			f.sinkR[s] = rd
			f.mu.Unlock()
			for pck := range rd.Read() {
				f.arrCh <- arrival{s, payloadOf(pck)}
			}
		}))
		o.Link(in)
		f.sinkP[s] = in
	}
	f.proc = process.New()
	for i := 0; i < k; i++ {
		i := i
		src := port.NewOut()
		src.Link(f.ins[i])
		f.srcs = append(f.srcs, src)
		w := src.Open(f.proc)
		r := &requester{q: qid{i, 0}, wid: i, w: w, kind: p.kinds[i], cmd: make(chan reqCmd, 16), res: make(chan reqRes, 16)}
		w.AddInboundHook(packet.HookFunc(func(_ *packet.Packet) {
			f.mu.Lock()
			f.avail[i]++
			f.mu.Unlock()
			select {
			case f.availCh <- struct{}{}:
			default:
			}
		}))
		f.rs = append(f.rs, r)
		go r.loop()
	}
	// warm-up: every input completes one group – through the out port, the last one through the error
	// port as well – so that every forward loop has opened the shared writers
	for last := 0; last < k; last++ {
		for rounds := 0; rounds < 2; rounds++ {
			flag := byte(0)
			if rounds == 1 {
				if last != k-1 {
					break
				}
				flag = 'e'
			}
			for d := 1; d <= k; d++ {
				i := (last + d) % k
				fl := byte(0)
				if i == last {
					fl = flag
				}
				if !f.doWrite(i, fl, "warm-up") {
					return f, "a warm-up request failed: " + strings.Join(f.fails, "; ")
				}
				if f.plan.kinds[i] == "raw" && i != last {
					f.doRecv(i)
				}
			}
			s := 0
			if flag == 'e' {
				s = 1
			}
			f.doAnswer(s, false)
			if f.plan.kinds[last] == "raw" {
				f.doRecv(last)
			}
			if len(f.fails) > 0 {
				return f, "warm-up failed: " + f.fails[0]
			}
		}
	}
	for i := 0; i < k; i++ {
		f.inR = append(f.inR, f.ins[i].Open(f.proc))
	}
	f.mu.Lock()
	ok := f.sinkR[0] != nil && f.sinkR[1] != nil
	f.mu.Unlock()
	if !ok {
		return f, "a sink's reader was not opened by the warm-up"
	}
	f.trace = nil
	return f, ""
}

func (f *jnWF) reply(r *requester) (reqRes, bool) {
	select {
	case res := <-r.res:
		return res, true
	case <-time.After(watchdog):
		return reqRes{}, false
	}
}

func (f *jnWF) waitAvail(i, n int) bool {
	deadline := time.After(watchdog)
	for {
		f.mu.Lock()
		ok := f.avail[i] >= n
		f.mu.Unlock()
		if ok {
			return true
		}
		select {
		case <-f.availCh:
		case <-time.After(20 * time.Millisecond):
		case <-deadline:
			return false
		}
	}
}

// settle (quiesced): every response of input i that is due has reached the requester's writer; a Send
// caller returns with it.
func (f *jnWF) settle(i int) {
	due := 0
	for _, q := range f.reqs[i] {
		if q.expect == "" {
			break
		}
		due++
	}
	if due == f.delivered[i] {
		return
	}
	r := f.rs[i]
	if !f.waitAvail(i, due) {
		f.fail("lost-response", "requester %d, request %d: its answer is determined (%s), no response reached the requester although its path is intact", i, f.reqs[i][f.delivered[i]].v, f.reqs[i][f.delivered[i]].expect)
		return
	}
	f.delivered[i] = due
	if r.inSend {
		res, ok := f.reply(r)
		if !ok {
			r.blocked++
			f.fail("blocked", "requester %d (%s) did not return from Send although its response was available", i, r.kind)
			return
		}
		r.inSend = false
		f.record(i, res)
	}
}

// doWrite: requester i writes a fresh request; quiesced (answered with itself, or with the sink).
func (f *jnWF) doWrite(i int, flag byte, when string) bool {
	r := f.rs[i]
	q := &jnReq{v: f.nextV, i: i, flag: flag, when: when, sink: -1}
	f.nextV++
	f.mu.Lock()
	f.flags[q.v] = flag
	f.mu.Unlock()
	if r.kind == "raw" {
		r.cmd <- reqCmd{"write", q.v}
		res, ok := f.reply(r)
		if !ok || res.panicked != "" || res.cnt != 1 {
			f.fail("lost-request", "requester %d: Write of request %d on an intact path returned %d (panic %q)", i, q.v, res.cnt, res.panicked)
			return false
		}
		r.owedRecv++
	} else {
		r.cmd <- reqCmd{op: r.kind, v: q.v}
		r.inSend = true
	}
	f.reqs[i] = append(f.reqs[i], q)
	fl := ""
	if flag != 0 {
		fl = " (flag " + string(flag) + ")"
	}
	grp := f.g.read(i, q)
	if grp == nil {
		q.expect = "v" + strconv.Itoa(q.v)
		f.log("W%d: request %d%s does not complete its group: answered with itself", i, q.v, fl)
		f.settle(i)
		return true
	}
	sink, pay := jnRoute(grp)
	var ms []string
	for _, m := range grp {
		ms = append(ms, strconv.Itoa(m.v))
	}
	switch {
	case sink < 0:
		q.expect = "v" + strconv.Itoa(q.v)
		f.log("W%d: request %d%s completes group {%s}, the action returns nil: answered with itself", i, q.v, fl, strings.Join(ms, ","))
		f.settle(i)
	case f.tornSink[sink]:
		q.expect = "v" + strconv.Itoa(pay)
		f.log("W%d: request %d%s completes group {%s}, the write of %d to the torn-down sink %d is refused: answered with that packet", i, q.v, fl, strings.Join(ms, ","), pay, sink)
		f.settle(i)
	default:
		q.sink, q.pay = sink, pay
		f.held[sink] = append(f.held[sink], q)
		f.log("W%d: request %d%s completes group {%s}: %d goes to sink %d", i, q.v, fl, strings.Join(ms, ","), pay, sink)
		select {
		case a := <-f.arrCh:
			if a.k != sink || a.v != pay {
				f.fail("lost-request", "request %d completed group {%s}: sink %d read %d, expected %d at sink %d", q.v, strings.Join(ms, ","), a.k, a.v, pay, sink)
				return false
			}
		case <-time.After(watchdog):
			f.fail("lost-request", "request %d completed group {%s}: %d did not reach sink %d (path intact)", q.v, strings.Join(ms, ","), pay, sink)
			return false
		}
	}
	return len(f.fails) == 0
}

// doAnswer: sink s answers the oldest request it holds with the answer derived from it.
func (f *jnWF) doAnswer(s int, isErr bool) {
	if len(f.held[s]) == 0 {
		return
	}
	q := f.held[s][0]
	f.held[s] = f.held[s][1:]
	a := "v" + strconv.Itoa(q.pay+answerBase)
	if isErr {
		a = "e" + strconv.Itoa(q.pay+answerBase)
	}
	f.mu.Lock()
	rd := f.sinkR[s]
	f.mu.Unlock()
	ret := false
	if pmsg := lib.Safe(func() { ret = rd.Receive(mkAns(a)) }); pmsg != "" {
		f.fail("panic", "Reader.Receive of sink %d panicked: %s", s, pmsg)
	}
	f.log("A%d: sink %d answers %d (request %d of requester %d) with %s => %v", s, s, q.pay, q.v, q.i, a, ret)
	if q.expect != "" {
		return // a late answer: the response of this request was decided by the teardown
	}
	if !ret {
		f.fail("lost-response", "sink %d (not torn down): Receive(%s) for %d returned false", s, a, q.pay)
	}
	q.expect = canonAns(a)
	f.settle(q.i)
}

func (f *jnWF) record(i int, res reqRes) {
	c := ""
	switch {
	case res.panicked != "":
		f.fail("panic", "requester %d (%s) panicked: %s", i, f.rs[i].kind, res.panicked)
		c = "panic"
	case res.closed:
		c = "closed"
	default:
		c = canon(res.pck)
	}
	for _, q := range f.reqs[i] {
		if q.result == "" {
			q.result = c
			f.log("requester %d is handed %s for request %d", i, c, q.v)
			return
		}
	}
	f.fail("extra-response", "requester %d was handed %s although every request already had its response", i, c)
}

func (f *jnWF) doRecv(i int) {
	r := f.rs[i]
	r.cmd <- reqCmd{op: "recv"}
	res, ok := f.reply(r)
	if !ok {
		r.blocked++
		f.fail("blocked", "requester %d (raw) did not receive an available response", i)
		return
	}
	r.owedRecv--
	f.record(i, res)
}

func (f *jnWF) cleanup() {
	for _, r := range f.rs {
		close(r.cmd)
	}
	lib.Safe(func() {
		if f.proc != nil {
			f.proc.Exit(nil)
		}
		for _, s := range f.srcs {
			s.Close()
		}
		if f.nd != nil {
			_ = f.nd.Close()
		}
		for _, in := range f.sinkP {
			if in != nil {
				in.Close()
			}
		}
	})
}

func (f *jnWF) apply(a jnAction) {
	var do func()
	switch a.what {
	case "srcport":
		do = func() { f.srcs[a.i].Close() }
	case "inport":
		do = func() { f.ins[a.i].Close() }
	case "reader":
		do = func() { f.inR[a.i].Close() }
	case "outport":
		do = func() { f.nd.Out(node.PortOut).Close() }
	case "sinkport":
		do = func() { f.sinkP[0].Close() }
	case "exit":
		do = func() { f.proc.Exit(nil) }
	case "node":
		do = func() { _ = f.nd.Close() }
	}
	if pmsg := lib.Safe(do); pmsg != "" {
		f.fail("panic", "%s panicked: %s", a.name(), pmsg)
	}
	f.log("down %s", a.name())
}

func jnActions(k int) []jnAction {
	var out []jnAction
	for i := 0; i < k; i++ {
		for _, w := range []string{"srcport", "inport", "reader"} {
			out = append(out, jnAction{w, i})
		}
	}
	for _, w := range []string{"outport", "sinkport", "exit", "node"} {
		out = append(out, jnAction{what: w})
	}
	return out
}

type jnResult struct {
	trace, fails []string
	otherWaits   bool // one input was torn down while a request of ANOTHER input waited at a sink
}

func runJoin(p *jnPlan, c jnCrash) (res jnResult) {
	f, e := jnBuild(p)
	defer f.cleanup()
	finish := func() jnResult { res.trace, res.fails = f.trace, f.fails; return res }
	if e != "" {
		f.fail("setup", "%s", e)
		return finish()
	}
	for _, ev := range p.events[:c.prefix] {
		switch ev.kind {
		case 'W':
			f.doWrite(ev.i, ev.flag, "pre")
		case 'A':
			f.doAnswer(ev.i, ev.err)
		case 'R':
			f.doRecv(ev.i)
		}
		if len(f.fails) > 0 {
			return finish()
		}
	}
	// the crash: whose response is now owed the dropped error
	for _, a := range c.acts {
		switch a.what {
		case "srcport":
			f.tornIn[a.i], f.ownClosed[a.i], f.severed[a.i] = true, true, true
		case "inport", "reader":
			f.tornIn[a.i], f.severed[a.i] = true, true
		case "outport", "sinkport":
			f.tornSink[0] = true
		case "exit", "node":
			for i := range f.tornIn {
				f.tornIn[i], f.severed[i] = true, true
				f.ownClosed[i] = f.ownClosed[i] || a.what == "exit"
			}
			f.tornSink[0], f.tornSink[1] = true, true
		}
	}
	for i, qs := range f.reqs {
		for n, q := range qs {
			if f.tornIn[i] && n >= f.delivered[i] {
				// not yet passed upstream by the node – also a request that already has its answer but is
				// queued behind an older one of the same input that still waits (the node answers in read order)
				q.expect, q.hard = "E0", true
				continue
			}
			if q.expect != "" {
				continue
			}
			if f.tornSink[q.sink] {
				q.expect, q.hard = "E0", true
			} else {
				for j := range f.tornIn {
					if j != i && f.tornIn[j] {
						res.otherWaits = true
					}
				}
			}
		}
	}
	for _, a := range c.acts {
		f.apply(a)
	}
	// Let the forward loops of the closed in-readers come to their end before the sinks answer (the real
	// answers may come "whenever"; a loop that wrongly drops what is pending on the shared writers is
	// only seen if it gets there first).  Their end cannot be observed; the closed Read() channel and
	// a moment's pause is the best there is – the verdict of the unchanged code does not depend on it.
	for _, a := range c.acts {
		if a.what == "inport" || a.what == "reader" {
			select {
			case <-f.inR[a.i].Read():
			case <-time.After(watchdog):
			}
		}
	}
	for n := 0; n < 20; n++ {
		runtime.Gosched()
	}
	time.Sleep(500 * time.Microsecond)
	f.drain()
	if len(f.fails) == 0 {
		// torn down before the next requests
		for i := 0; i < p.k; i++ {
			if f.severed[i] || f.rs[i].blocked > 0 {
				continue
			}
			if !f.doWrite(i, 0, "post") {
				break
			}
		}
		f.drain()
	}
	f.judge()
	return finish()
}

// drain: the sinks answer everything they hold, oldest first; the requesters collect what they are owed.
func (f *jnWF) drain() {
	for more := true; more; {
		more = false
		for s := 0; s < 2; s++ {
			if len(f.held[s]) > 0 {
				f.doAnswer(s, false)
				more = true
			}
		}
	}
	deadline := time.Now().Add(watchdog)
	for i, r := range f.rs {
		if r.blocked > 0 {
			continue
		}
		n := r.owedRecv
		if r.kind == "raw" {
			for k := 0; k < n; k++ {
				r.cmd <- reqCmd{op: "recv"}
			}
		} else {
			n = 0
			if r.inSend {
				n = 1
			}
		}
		for k := 0; k < n; k++ {
			select {
			case rr := <-r.res:
				r.inSend = false
				if r.kind == "raw" {
					r.owedRecv--
				}
				f.record(i, rr)
			case <-time.After(time.Until(deadline)):
				r.blocked += n - k
				f.fail("blocked", "requester %d (%s) still blocked %v after the teardown with %d responses owed", i, r.kind, watchdog, n-k)
				k = n
			}
		}
	}
}

func (f *jnWF) judge() {
	for i, qs := range f.reqs {
		for _, q := range qs {
			what := fmt.Sprintf("requester %d (%s), request %d (%s)", i, f.rs[i].kind, q.v, q.when)
			switch q.result {
			case "":
				if f.rs[i].blocked == 0 {
					f.fail("blocked", "%s: never received a response", what)
				}
				continue
			case "nil":
				f.fail("nil-packet", "%s: was handed a nil packet", what)
				continue
			case "closed":
				if f.ownClosed[i] {
					f.fail("close-discards-buffered", "%s: raw receive on its own closed writer saw the closed channel instead of the packet", what)
				} else {
					f.fail("closed-channel", "%s: received the zero value of the closed Receive() channel while a response was owed and its writer was not closed", what)
				}
				continue
			case "panic":
				continue
			}
			if q.result == q.expect {
				continue
			}
			if q.hard {
				f.fail("wrong-answer", "%s outstanding when its path was torn down: got %s, expected the dropped error", what, q.result)
				continue
			}
			why := "itself (it did not complete a group, or the action returned nil)"
			if q.sink >= 0 {
				why = fmt.Sprintf("the answer of sink %d to %d, the packet the action returned for its group", q.sink, q.pay)
			} else if q.expect != "v"+strconv.Itoa(q.v) {
				why = "the packet the action returned for its group (the write to the torn-down sink is refused)"
			}
			f.fail("unaffected", "%s on an input of a many-to-one node whose path was NOT torn down: got %s, expected %s – %s", what, q.result, q.expect, why)
		}
	}
}

// ---------------------------------------------------------------- generation, corpus, driver loop

func genJoin(rng *lib.RNG, id, maxEvents int) *jnPlan {
	k := rng.Range(2, 3)
	p := &jnPlan{id: id, k: k}
	for i := 0; i < k; i++ {
		p.kinds = append(p.kinds, lib.Pick(rng, []string{"raw", "raw", "send", "fb"}))
	}
	s := newJnSim(k, p.kinds)
	n := rng.Range(2, maxEvents)
	for tries := 0; len(p.events) < n && tries < 300; tries++ {
		switch rng.Weighted([]int{7, 2, 2}) {
		case 0:
			i := rng.Intn(k)
			if !s.canW(i) {
				continue
			}
			flag := byte(0)
			switch rng.Intn(8) {
			case 0:
				flag = 'n'
			case 1:
				flag = 'e'
			}
			p.events = append(p.events, jnEv{kind: 'W', i: i, flag: flag})
			s.w(i, flag)
		case 1:
			sk := rng.Intn(2)
			if !s.canA(sk) {
				sk = 1 - sk
				if !s.canA(sk) {
					continue
				}
			}
			p.events = append(p.events, jnEv{kind: 'A', i: sk, err: rng.Chance(1, 6)})
			s.a(sk)
		case 2:
			i := rng.Intn(k)
			if !s.canR(i) {
				continue
			}
			p.events = append(p.events, jnEv{kind: 'R', i: i})
			s.r(i)
		}
	}
	return p
}

// isJoinCorpus tells whether a corpus file belongs to the join family:
//
//	join <k>
//	kinds <raw|send|fb> × k
//	events W<input>[n|e] A<sink>[e] R<input> …
//	prefix <n>
//	actions <srcport|inport|reader> <input> | outport | sinkport | exit | node  [+ …]
func isJoinCorpus(path string) bool {
	ls := lib.ReadLines(path)
	return len(ls) > 0 && strings.HasPrefix(ls[0], "join ")
}

func parseJoinCorpus(path string, id int) (p *jnPlan, c jnCrash, err string) {
	p = &jnPlan{id: id}
	c.prefix = -1
	num := func(s string, lo, hi int) (int, bool) {
		n, e := strconv.Atoi(s)
		return n, e == nil && n >= lo && n <= hi
	}
	for _, l := range lib.ReadLines(path) {
		f := strings.Fields(l)
		switch f[0] {
		case "join":
			n, ok := 0, false
			if len(f) == 2 {
				n, ok = num(f[1], 2, 3)
			}
			if !ok {
				return nil, c, "join needs the number of in-ports (2 or 3)"
			}
			p.k = n
		case "kinds":
			for _, kd := range f[1:] {
				if kd != "raw" && kd != "send" && kd != "fb" {
					return nil, c, "unknown requester kind " + kd
				}
				p.kinds = append(p.kinds, kd)
			}
		case "events":
			for _, t := range f[1:] {
				if len(t) < 2 {
					return nil, c, "bad event " + t
				}
				body, suffix := t[1:], byte(0)
				if last := body[len(body)-1]; last == 'n' || last == 'e' {
					body, suffix = body[:len(body)-1], last
				}
				n, ok := num(body, 0, 2)
				if !ok {
					return nil, c, "bad event " + t
				}
				switch t[0] {
				case 'W':
					p.events = append(p.events, jnEv{kind: 'W', i: n, flag: suffix})
				case 'A':
					if suffix == 'n' || n > 1 {
						return nil, c, "bad event " + t
					}
					p.events = append(p.events, jnEv{kind: 'A', i: n, err: suffix == 'e'})
				case 'R':
					if suffix != 0 {
						return nil, c, "bad event " + t
					}
					p.events = append(p.events, jnEv{kind: 'R', i: n})
				default:
					return nil, c, "bad event " + t
				}
			}
		case "prefix":
			n, ok := 0, false
			if len(f) == 2 {
				n, ok = num(f[1], 0, 64)
			}
			if !ok {
				return nil, c, "bad prefix"
			}
			c.prefix = n
		case "actions":
			for _, name := range strings.Split(strings.Join(f[1:], " "), "+") {
				g := strings.Fields(name)
				switch {
				case len(g) == 2 && (g[0] == "srcport" || g[0] == "inport" || g[0] == "reader"):
					n, ok := num(g[1], 0, 2)
					if !ok {
						return nil, c, "unknown action " + strings.TrimSpace(name)
					}
					c.acts = append(c.acts, jnAction{g[0], n})
				case len(g) == 1 && (g[0] == "outport" || g[0] == "sinkport" || g[0] == "exit" || g[0] == "node"):
					c.acts = append(c.acts, jnAction{what: g[0]})
				default:
					return nil, c, "unknown action " + strings.TrimSpace(name)
				}
			}
		default:
			return nil, c, "unknown line " + l
		}
	}
	if p.k == 0 || len(p.kinds) != p.k || c.prefix < 0 || c.prefix > len(p.events) || len(c.acts) == 0 || len(c.acts) > 2 {
		return nil, c, "inconsistent case (join k, k requester kinds, prefix within the schedule, one or two actions)"
	}
	for _, a := range c.acts {
		if a.i >= p.k {
			return nil, c, "action on an input the node does not have"
		}
	}
	for _, e := range p.events {
		if (e.kind == 'W' || e.kind == 'R') && e.i >= p.k {
			return nil, c, "event of a requester the workflow does not have"
		}
	}
	if bad := newJnSim(p.k, p.kinds).run(p.events); bad >= 0 {
		return nil, c, fmt.Sprintf("schedule not executable at event %d", bad)
	}
	return p, c, ""
}

func jnCorpusText(p *jnPlan, c jnCrash) string {
	var names []string
	for _, a := range c.acts {
		names = append(names, a.name())
	}
	return fmt.Sprintf("join %d\nkinds %s\nevents %s\nprefix %d\nactions %s\n", p.k, strings.Join(p.kinds, " "), jnEvents(p.events), c.prefix, strings.Join(names, " + "))
}

// runJoins runs the join family (oracle only).
func runJoins(c *lib.Ctx, rng *lib.RNG, add func(class, what, replay string), progress func(string), stop func() bool) {
	one := func(p *jnPlan, cr jnCrash) {
		progress(fmt.Sprintf("join scenario %d (%s) events=%s crash: %s", p.id, p.describe(), jnEvents(p.events), cr.describe()))
		res := runJoin(p, cr)
		key := ""
		if res.otherWaits {
			key = fmt.Sprintf("jn%d/%s", p.id, cr.describe())
			c.Hit("join-one-input-torn-down-another-input-waits-downstream")
		}
		c.Count(key)
		c.Hit(fmt.Sprintf("workflow-join-%d", p.k))
		for _, fl := range res.fails {
			parts := strings.SplitN(fl, "\t", 2)
			var b strings.Builder
			fmt.Fprintf(&b, "# scenario: %s\n# schedule: %s\n# crash point: %s\n# as a corpus file (corpus/C03/*.ops):\n", p.describe(), jnEvents(p.events), cr.describe())
			for _, cl := range strings.Split(strings.TrimSpace(jnCorpusText(p, cr)), "\n") {
				fmt.Fprintf(&b, "#   %s\n", cl)
			}
			for _, l := range res.trace {
				fmt.Fprintf(&b, "%s\n", l)
			}
			add(parts[0], parts[1], b.String())
		}
	}
	for i, fl := range c.CorpusFiles() {
		if !isJoinCorpus(fl) {
			continue
		}
		p, cr, e := parseJoinCorpus(fl, 600+i)
		if e != "" {
			add("corpus", "unusable corpus file "+fl+": "+e, "")
			continue
		}
		c.Hit("corpus-case")
		one(p, cr)
	}
	n := c.Scale(8, 100)
	maxEv := c.Scale(6, 9)
	for i := 0; i < n && !stop(); i++ {
		p := genJoin(rng.Fork(), 3000+i, maxEv)
		acts := jnActions(p.k)
		for prefix := 0; prefix <= len(p.events) && !stop(); prefix++ {
			for _, a := range acts {
				one(p, jnCrash{prefix: prefix, acts: []jnAction{a}})
			}
			for j := 0; j < 2; j++ {
				a, b := acts[rng.Intn(len(acts))], acts[rng.Intn(len(acts))]
				if a == b {
					continue
				}
				one(p, jnCrash{prefix: prefix, acts: []jnAction{a, b}})
			}
		}
	}
}
