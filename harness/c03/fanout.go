package c03

// Fan-out: a real node.OneToManyNode with k = 2 or 3 out-ports, each linked to the in-port of its
// own sink (one process):
//
//	requester → S → N ─ out[0] → D0 (sink 0)
//	                  ├ out[1] → D1 (sink 1)
//	                  └ out[2] → D2 (sink 2)
//
// The node's action returns a FRESH packet per out-port (payload = request·16 + branch), and for
// some requests nil for some of the ports ("holes", possibly for all of them).  One request is
// thus k cells: the node answers it upstream when every cell has its answer, with packet.Join of
// the cells in port order.  Every sink holds the requests it has read and answers the oldest one
// on command with the answer derived from it (payload + answerBase).
//
// Crash points: every prefix of a quiesced schedule {the requester writes (with a hole mask), sink
// b answers its oldest request, the raw requester receives}, and – where the requester can write –
// the same prefix with one more request that is INSIDE THE ACTION while the teardown actions run
// (the action is gated).  Teardown actions, on ONE branch b (and sampled pairs on two branches):
// the node's out-port b closed; the downstream in-port closed; the downstream reader closed; the
// process's writer of out-port b closed.  Afterwards the sinks answer what they hold, the
// requester collects, and one more request is written ("torn down before the next request").
//
// Oracle only (the reference below is Go, not Uniflow.Teardown: the model's relay has one cell per
// request).  The reference, per request and branch, is what the statement of C03 says:
//   - the branch is a hole: no cell;
//   - the cell was answered before the teardown: that answer;
//   - the request was with the sink when the branch was torn down: the dropped error;
//   - the branch was torn down before the request was written to it (request inside the action, or a
//     later request): the write is refused, the cell is the packet itself (echo);
//   - the branch is alive: the sink's real answer, whenever it comes.
// The requester must be handed packet.Join of the cells in port order (no cell at all: its own
// request back), every request exactly once, in order, within the watchdog.  A result that lacks
// the real answer of a live branch is class `unaffected` ("requesters on unaffected paths still
// receive their correct answers").

import (
	"fmt"
	"strconv"
	"strings"
	"sync"
	"time"

	"github.com/siyul-park/uniflow/pkg/node"
	"github.com/siyul-park/uniflow/pkg/packet"
	"github.com/siyul-park/uniflow/pkg/port"
	"github.com/siyul-park/uniflow/pkg/process"
	"github.com/siyul-park/uniflow/pkg/types"

	"verifharness/lib"
)

const foMul = 16

type foEv struct {
	kind byte // 'W' the requester writes (mask = branches that get nil), 'A' sink b answers its oldest request, 'R' the raw requester receives
	b    int
	mask int
	err  bool
}

type foPlan struct {
	id     int
	k      int
	kind   string // raw send fb
	events []foEv
}

type foAction struct {
	what string // outport inport reader writer
	b    int
}

func (a foAction) name() string { return fmt.Sprintf("%s %d", a.what, a.b) }

type foCrash struct {
	prefix   int
	inAction bool // one more request is inside the action while the teardown runs
	inMask   int
	postMask int
	acts     []foAction
}

func (p *foPlan) describe() string {
	return fmt.Sprintf("fan-out: requester (%s) → S → OneToManyNode with %d out-ports, each to its own sink; fresh packet per port", p.kind, p.k)
}

func foEvents(es []foEv) string {
	var out []string
	for _, e := range es {
		switch e.kind {
		case 'W':
			out = append(out, "W"+strconv.Itoa(e.mask))
		case 'R':
			out = append(out, "R")
		case 'A':
			s := "A" + strconv.Itoa(e.b)
			if e.err {
				s += "e"
			}
			out = append(out, s)
		}
	}
	return strings.Join(out, " ")
}

func (c foCrash) describe() string {
	var names []string
	for _, a := range c.acts {
		names = append(names, a.name())
	}
	s := fmt.Sprintf("after %d events", c.prefix)
	if c.inAction {
		s += fmt.Sprintf(", with one more request (holes %03b) inside the action", c.inMask)
	}
	return s + "; actions: " + strings.Join(names, " + ") + fmt.Sprintf("; then one more request (holes %03b)", c.postMask)
}

// foSim tracks which schedules the requester can follow (generator and corpus parser).
type foSim struct {
	k       int
	kind    string
	pending [][]bool // per request, per branch: cell still awaited
	held    [][]int  // per branch: request indices held by the sink, oldest first
	avail   int      // resolved, delivered to the requester's writer, not yet received (raw)
	taken   int      // requests whose response has left the node
}

func newFoSim(k int, kind string) *foSim { return &foSim{k: k, kind: kind, held: make([][]int, k)} }

func (s *foSim) unresolved() int { return len(s.pending) - s.taken }

func (s *foSim) settle() {
	for s.taken < len(s.pending) {
		for _, p := range s.pending[s.taken] {
			if p {
				return
			}
		}
		s.taken++
		if s.kind == "raw" {
			s.avail++
		}
	}
}

func (s *foSim) canW() bool {
	if s.kind == "raw" {
		return s.unresolved()+s.avail < 2
	}
	return s.unresolved() == 0
}

func (s *foSim) w(mask int) {
	cells := make([]bool, s.k)
	for b := 0; b < s.k; b++ {
		if mask&(1<<b) == 0 {
			cells[b] = true
			s.held[b] = append(s.held[b], len(s.pending))
		}
	}
	s.pending = append(s.pending, cells)
	s.settle()
}

func (s *foSim) canA(b int) bool { return b >= 0 && b < s.k && len(s.held[b]) > 0 }

func (s *foSim) a(b int) {
	i := s.held[b][0]
	s.held[b] = s.held[b][1:]
	s.pending[i][b] = false
	s.settle()
}

func (s *foSim) canR() bool { return s.kind == "raw" && s.avail > 0 }
func (s *foSim) r()         { s.avail-- }

// ---------------------------------------------------------------- the live workflow

type foReq struct {
	v      int
	mask   int
	cells  []string // per branch: "-" hole, "" awaited, else the canonical answer
	live   []bool   // the cell is (to be) the real answer of a branch that is alive
	alt    []string // per branch: a second admissible value ("" none), see runFanOut
	when   string   // pre | in-action | post
	result string
}

func (q *foReq) resolved() bool {
	for _, c := range q.cells {
		if c == "" {
			return false
		}
	}
	return true
}

// expect lists the admissible results (more than one only with an `alt` cell).
func (q *foReq) expect() []string {
	combos := [][]string{nil}
	for b, c := range q.cells {
		if c == "-" {
			continue
		}
		opts := []string{c}
		if q.alt[b] != "" {
			opts = append(opts, q.alt[b])
		}
		var next [][]string
		for _, pre := range combos {
			for _, o := range opts {
				next = append(next, append(append([]string(nil), pre...), o))
			}
		}
		combos = next
	}
	var out []string
	for _, cs := range combos {
		if len(cs) == 0 {
			out = append(out, "v"+strconv.Itoa(q.v)) // nothing was written: the request is its own answer
		} else {
			out = append(out, joinCanon(cs))
		}
	}
	return out
}

type foHeld struct {
	req *foReq
	pay int
}

type foWF struct {
	plan  *foPlan
	proc  *process.Process
	src   *port.OutPort
	nd    *node.OneToManyNode
	outs  []*port.OutPort
	downs []*port.InPort
	outW  []*packet.Writer
	r     *requester

	mu      sync.Mutex
	sinkR   []*packet.Reader
	masks   map[int]int
	gateV   int
	entered chan struct{}
	gate    chan struct{}
	avail   int

	arrCh   chan arrival
	availCh chan struct{}

	held      [][]foHeld
	reqs      []*foReq
	delivered int // responses that have reached the requester's writer (pre-crash bookkeeping)
	torn      []bool
	nextV     int

	trace []string
	fails []string
}

func (f *foWF) fail(class, format string, a ...any) {
	f.fails = append(f.fails, class+"\t"+fmt.Sprintf(format, a...))
}

func (f *foWF) log(format string, a ...any) { f.trace = append(f.trace, fmt.Sprintf(format, a...)) }

func foBuild(p *foPlan) (f *foWF, err string) {
	f = &foWF{plan: p, sinkR: make([]*packet.Reader, p.k), masks: map[int]int{}, entered: make(chan struct{}, 4),
		arrCh: make(chan arrival, 64), availCh: make(chan struct{}, 64), held: make([][]foHeld, p.k), torn: make([]bool, p.k), nextV: 1}
	f.nd = node.NewOneToManyNode(func(_ *process.Process, pck *packet.Packet) ([]*packet.Packet, *packet.Packet) {
		v := payloadOf(pck)
		f.mu.Lock()
		mask := f.masks[v]
		gated := f.gateV == v
		g := f.gate
		f.mu.Unlock()
		if gated {
			f.entered <- struct{}{}
			<-g
		}
		outs := make([]*packet.Packet, p.k)
		for b := range outs {
			if mask&(1<<b) == 0 {
				outs[b] = packet.New(types.NewInt64(int64(v*foMul + b)))
			}
		}
		return outs, nil
	})
	for b := 0; b < p.k; b++ {
		b := b
		o := f.nd.Out(node.PortWithIndex(node.PortOut, b))
		in := port.NewIn()
		in.AddListener(port.ListenFunc(func(proc *process.Process) {
			rd := in.Open(proc)
			f.mu.Lock()
			f.sinkR[b] = rd
			f.mu.Unlock()
			for pck := range rd.Read() {
				f.arrCh <- arrival{b, payloadOf(pck)}
			}
		}))
		o.Link(in)
		f.outs = append(f.outs, o)
		f.downs = append(f.downs, in)
	}
	f.src = port.NewOut()
	f.src.Link(f.nd.In(node.PortIn))
	f.proc = process.New()
	w := f.src.Open(f.proc)
	f.r = &requester{q: qid{0, 0}, wid: 0, w: w, kind: p.kind, cmd: make(chan reqCmd, 16), res: make(chan reqRes, 16)}
	w.AddInboundHook(packet.HookFunc(func(_ *packet.Packet) {
		f.mu.Lock()
		f.avail++
		f.mu.Unlock()
		select {
		case f.availCh <- struct{}{}:
		default:
		}
	}))
	go f.r.loop()
	// warm-up: one request through every branch (opens the lazily opened endpoints, starts the loops)
	if !f.doWrite(0, "pre") {
		return f, "the warm-up request did not reach the sinks"
	}
	for b := 0; b < p.k; b++ {
		f.doAnswer(b, false, true)
	}
	if p.kind == "raw" {
		f.doRecv()
	}
	if len(f.fails) > 0 {
		return f, "warm-up failed: " + f.fails[0]
	}
	for b := 0; b < p.k; b++ {
		f.outW = append(f.outW, f.outs[b].Open(f.proc))
		f.mu.Lock()
		ok := f.sinkR[b] != nil
		f.mu.Unlock()
		if !ok {
			return f, "a sink's reader was not opened by the warm-up"
		}
	}
	f.trace = nil
	return f, ""
}

func (f *foWF) reply() (reqRes, bool) {
	select {
	case res := <-f.r.res:
		return res, true
	case <-time.After(watchdog):
		return reqRes{}, false
	}
}

// waitAvail waits until n responses have reached the requester's writer (inbound hook).
func (f *foWF) waitAvail(n int) bool {
	deadline := time.After(watchdog)
	for {
		f.mu.Lock()
		ok := f.avail >= n
		f.mu.Unlock()
		if ok {
			return true
		}
		select {
		case <-f.availCh:
		case <-time.After(20 * time.Millisecond):
		case <-deadline:
			return false
		}
	}
}

// issue hands the request to the requester's goroutine (raw: Write must report one reader).
func (f *foWF) issue(q *foReq) bool {
	r := f.r
	f.mu.Lock()
	f.masks[q.v] = q.mask
	f.mu.Unlock()
	if r.kind == "raw" {
		r.cmd <- reqCmd{"write", q.v}
		res, ok := f.reply()
		if !ok || res.panicked != "" || res.cnt != 1 {
			f.fail("lost-request", "Write of request %d on the requester's own (untouched) writer returned %d (panic %q)", q.v, res.cnt, res.panicked)
			return false
		}
		r.owedRecv++
	} else {
		r.cmd <- reqCmd{op: r.kind, v: q.v}
		r.inSend = true
	}
	return true
}

// place fills in the cells of a request that is being written now: hole, echo (branch torn down),
// or awaited (the sink will hold it).
func (f *foWF) place(q *foReq) (expectArrivals int) {
	q.cells = make([]string, f.plan.k)
	q.live = make([]bool, f.plan.k)
	q.alt = make([]string, f.plan.k)
	for b := 0; b < f.plan.k; b++ {
		switch {
		case q.mask&(1<<b) != 0:
			q.cells[b] = "-"
		case f.torn[b]:
			q.cells[b] = "v" + strconv.Itoa(q.v*foMul+b)
		default:
			q.live[b] = true
			f.held[b] = append(f.held[b], foHeld{q, q.v*foMul + b})
			expectArrivals++
		}
	}
	return
}

func (f *foWF) awaitArrivals(q *foReq, n int) bool {
	want := map[arrival]bool{}
	for b := 0; b < f.plan.k; b++ {
		if q.live[b] {
			want[arrival{b, q.v*foMul + b}] = true
		}
	}
	for i := 0; i < n; i++ {
		select {
		case a := <-f.arrCh:
			if !want[a] {
				f.fail("lost-request", "request %d (%s): sink %d read payload %d, which no live branch of this request carries", q.v, q.when, a.k, a.v)
				return false
			}
			delete(want, a)
		case <-time.After(watchdog):
			f.fail("lost-request", "request %d (%s): %d of its packets for live branches did not reach their sinks", q.v, q.when, len(want))
			return false
		}
	}
	return true
}

func (f *foWF) newReq(mask int, when string) *foReq {
	q := &foReq{v: f.nextV, mask: mask, when: when}
	f.nextV++
	f.reqs = append(f.reqs, q)
	return q
}

// doWrite: the requester writes a fresh request; quiesced (it has reached the sinks of its live branches).
func (f *foWF) doWrite(mask int, when string) bool {
	q := f.newReq(mask, when)
	if !f.issue(q) {
		return false
	}
	n := f.place(q)
	f.log("W%d: request %d, holes %03b", mask, q.v, mask)
	if !f.awaitArrivals(q, n) {
		return false
	}
	if when == "pre" {
		f.settle()
	}
	return true
}

// settle (pre-crash, quiesced): every response that is due has reached the requester's writer; a Send
// caller returns with it.
func (f *foWF) settle() {
	due := 0
	for _, q := range f.reqs {
		if !q.resolved() {
			break
		}
		due++
	}
	if due == f.delivered {
		return
	}
	if !f.waitAvail(due) {
		f.fail("lost-response", "request %d: every cell has its answer, no response reached the requester (no teardown yet)", f.reqs[f.delivered].v)
		return
	}
	f.delivered = due
	if f.r.inSend {
		res, ok := f.reply()
		if !ok {
			f.r.blocked++
			f.fail("blocked", "the requester (%s) did not return from Send although its response was available", f.r.kind)
			return
		}
		f.r.inSend = false
		f.record(res)
	}
}

// doAnswer: sink b answers the oldest request it holds with the answer derived from it.
func (f *foWF) doAnswer(b int, isErr, quiesce bool) {
	if len(f.held[b]) == 0 {
		return
	}
	h := f.held[b][0]
	f.held[b] = f.held[b][1:]
	a := "v" + strconv.Itoa(h.pay+answerBase)
	if isErr {
		a = "e" + strconv.Itoa(h.pay+answerBase)
	}
	f.mu.Lock()
	rd := f.sinkR[b]
	f.mu.Unlock()
	ret := false
	if pmsg := lib.Safe(func() { ret = rd.Receive(mkAns(a)) }); pmsg != "" {
		f.fail("panic", "Reader.Receive of sink %d panicked: %s", b, pmsg)
	}
	f.log("A%d: sink %d answers %d with %s => %v", b, b, h.pay, a, ret)
	if f.torn[b] {
		return // a late answer on a torn-down branch: the cell is already decided
	}
	if !ret {
		f.fail("lost-response", "sink %d (branch alive): Receive(%s) for payload %d returned false", b, a, h.pay)
	}
	h.req.cells[b] = canonAns(a)
	if quiesce {
		f.settle()
	}
}

func (f *foWF) record(res reqRes) {
	c := ""
	switch {
	case res.panicked != "":
		f.fail("panic", "the requester (%s) panicked: %s", f.r.kind, res.panicked)
		c = "panic"
	case res.closed:
		c = "closed"
	default:
		c = canon(res.pck)
	}
	for _, q := range f.reqs {
		if q.result == "" {
			q.result = c
			f.log("the requester is handed %s for request %d", c, q.v)
			return
		}
	}
	f.fail("extra-response", "the requester was handed %s although every request already had its response", c)
}

func (f *foWF) doRecv() {
	f.r.cmd <- reqCmd{op: "recv"}
	res, ok := f.reply()
	if !ok {
		f.r.blocked++
		f.fail("blocked", "the requester (raw) did not receive an available response")
		return
	}
	f.r.owedRecv--
	f.record(res)
}

func (f *foWF) cleanup() {
	if f.r != nil {
		close(f.r.cmd)
	}
	f.mu.Lock()
	g := f.gate
	f.gate = nil
	f.mu.Unlock()
	lib.Safe(func() {
		if g != nil {
			close(g)
		}
	})
	lib.Safe(func() {
		if f.proc != nil {
			f.proc.Exit(nil)
		}
		if f.src != nil {
			f.src.Close()
		}
		if f.nd != nil {
			_ = f.nd.Close()
		}
		for _, in := range f.downs {
			in.Close()
		}
	})
}

func (f *foWF) apply(a foAction) {
	var do func()
	switch a.what {
	case "outport":
		do = func() { f.outs[a.b].Close() }
	case "inport":
		do = func() { f.downs[a.b].Close() }
	case "reader":
		f.mu.Lock()
		rd := f.sinkR[a.b]
		f.mu.Unlock()
		do = func() { rd.Close() }
	case "writer":
		do = func() { f.outW[a.b].Close() }
	}
	if pmsg := lib.Safe(do); pmsg != "" {
		f.fail("panic", "%s panicked: %s", a.name(), pmsg)
	}
	f.log("down %s", a.name())
}

func foActions(k int) []foAction {
	var out []foAction
	for b := 0; b < k; b++ {
		for _, w := range []string{"outport", "inport", "reader", "writer"} {
			out = append(out, foAction{w, b})
		}
	}
	return out
}

type foResult struct {
	trace, fails []string
	lowerDead    bool // a lower-indexed branch was torn down while a higher one stayed alive and a request was written afterwards
}

func runFanOut(p *foPlan, c foCrash) (res foResult) {
	f, e := foBuild(p)
	defer f.cleanup()
	finish := func() foResult { res.trace, res.fails = f.trace, f.fails; return res }
	if e != "" {
		f.fail("setup", "%s", e)
		return finish()
	}
	for _, ev := range p.events[:c.prefix] {
		switch ev.kind {
		case 'W':
			f.doWrite(ev.mask, "pre")
		case 'A':
			f.doAnswer(ev.b, ev.err, true)
		case 'R':
			f.doRecv()
		}
		if len(f.fails) > 0 {
			return finish()
		}
	}
	// the crash
	var inQ *foReq
	if c.inAction {
		inQ = f.newReq(c.inMask, "in-action")
		f.mu.Lock()
		f.gateV = inQ.v
		f.gate = make(chan struct{})
		f.mu.Unlock()
		if !f.issue(inQ) {
			return finish()
		}
		select {
		case <-f.entered:
		case <-time.After(watchdog):
			f.fail("lost-request", "request %d did not reach the node's action", inQ.v)
			return finish()
		}
		f.log("W%d: request %d, holes %03b, is inside the action", c.inMask, inQ.v, c.inMask)
	}
	for _, a := range c.acts {
		f.torn[a.b] = true
	}
	for b := 0; b < p.k; b++ {
		for b2 := b + 1; b2 < p.k; b2++ {
			if f.torn[b] && !f.torn[b2] {
				res.lowerDead = true
			}
		}
	}
	// what was with the sink of a torn-down branch is owed the dropped error
	closesWriter := make([]bool, p.k)
	for _, a := range c.acts {
		if a.what == "outport" || a.what == "writer" {
			closesWriter[a.b] = true
		}
	}
	for i, q := range f.reqs {
		for b := range q.cells {
			if !f.torn[b] {
				continue
			}
			if q.cells[b] == "" {
				q.cells[b] = "E0"
				q.live[b] = false
			} else if q.live[b] && i >= f.delivered && closesWriter[b] {
				// The sink has answered this cell, the request still waits for other cells: whether the node's
				// backward loop has taken the answer out of the out-writer cannot be observed.  If it has not,
				// closing the writer discards it (known finding close-discards-buffered) and Tracer.Drop
				// answers the cell with the dropped error.
				q.alt[b] = "E0"
			}
		}
	}
	for _, a := range c.acts {
		f.apply(a)
	}
	if inQ != nil {
		n := f.place(inQ)
		f.mu.Lock()
		g := f.gate
		f.gate = nil
		f.mu.Unlock()
		close(g)
		f.log("the action returns")
		if !f.awaitArrivals(inQ, n) {
			return finish()
		}
	}
	f.drain()
	if len(f.fails) == 0 && f.r.blocked == 0 {
		// torn down before the next request
		if f.doWrite(c.postMask, "post") {
			f.drain()
		}
	}
	f.judge()
	return finish()
}

// drain: the sinks answer everything they hold (round robin, oldest first), the requester collects
// everything it is owed.
func (f *foWF) drain() {
	for more := true; more; {
		more = false
		for b := 0; b < f.plan.k; b++ {
			if len(f.held[b]) > 0 {
				f.doAnswer(b, false, false)
				more = true
			}
		}
	}
	r := f.r
	if r.blocked > 0 {
		return
	}
	n := r.owedRecv
	if r.kind == "raw" {
		for k := 0; k < n; k++ {
			r.cmd <- reqCmd{op: "recv"}
		}
	} else {
		n = 0
		if r.inSend {
			n = 1
		}
	}
	deadline := time.Now().Add(watchdog)
	for k := 0; k < n; k++ {
		select {
		case rr := <-r.res:
			r.inSend = false
			if r.kind == "raw" {
				r.owedRecv--
			}
			f.record(rr)
		case <-time.After(time.Until(deadline)):
			r.blocked += n - k
			f.fail("blocked", "the requester (%s) still blocked %v after the teardown with %d responses owed (its own writer and the node are untouched)", r.kind, watchdog, n-k)
			return
		}
	}
}

func (f *foWF) judge() {
	for _, q := range f.reqs {
		what := fmt.Sprintf("request %d (%s, holes %03b)", q.v, q.when, q.mask)
		switch q.result {
		case "":
			if f.r.blocked == 0 {
				f.fail("blocked", "%s: never received a response", what)
			}
			continue
		case "nil":
			f.fail("nil-packet", "%s: the requester was handed a nil packet", what)
			continue
		case "closed":
			f.fail("closed-channel", "%s: the requester received the zero value of the closed Receive() channel although its own writer was not closed", what)
			continue
		case "panic":
			continue
		}
		exps := q.expect()
		okRes := false
		for _, e := range exps {
			okRes = okRes || e == q.result
		}
		if okRes {
			continue
		}
		exp := strings.Join(exps, " or ")
		var cells []string
		hasLive := false
		for b, c := range q.cells {
			tag := ""
			switch {
			case c == "-":
				tag = "hole"
			case q.live[b] && !f.torn[b]:
				tag = "alive: " + c
				hasLive = true
			default:
				tag = "torn down: " + c
			}
			cells = append(cells, fmt.Sprintf("branch %d %s", b, tag))
		}
		class := "wrong-answer"
		if hasLive {
			class = "unaffected"
		}
		f.fail(class, "%s through a one-to-many node: the requester was handed %s, expected %s = Join in port order of [%s] – a branch that was not torn down must still contribute its real answer", what, q.result, exp, strings.Join(cells, "; "))
	}
}

// ---------------------------------------------------------------- generation, corpus, driver loop

func genFanOut(rng *lib.RNG, id, maxEvents int) *foPlan {
	p := &foPlan{id: id, k: rng.Range(2, 3), kind: lib.Pick(rng, []string{"raw", "raw", "send", "fb"})}
	s := newFoSim(p.k, p.kind)
	n := rng.Range(1, maxEvents)
	for tries := 0; len(p.events) < n && tries < 200; tries++ {
		switch rng.Weighted([]int{4, 5, 2}) {
		case 0:
			if !s.canW() {
				continue
			}
			mask := 0
			if rng.Chance(1, 3) {
				mask = rng.Intn(1 << p.k)
			}
			p.events = append(p.events, foEv{kind: 'W', mask: mask})
			s.w(mask)
		case 1:
			b := rng.Intn(p.k)
			if !s.canA(b) {
				continue
			}
			p.events = append(p.events, foEv{kind: 'A', b: b, err: rng.Chance(1, 6)})
			s.a(b)
		case 2:
			if !s.canR() {
				continue
			}
			p.events = append(p.events, foEv{kind: 'R'})
			s.r()
		}
	}
	return p
}

// foCanWrite tells whether the requester can write one more request after the first n events.
func foCanWrite(p *foPlan, n int) bool {
	s := newFoSim(p.k, p.kind)
	for _, e := range p.events[:n] {
		switch e.kind {
		case 'W':
			s.w(e.mask)
		case 'A':
			s.a(e.b)
		case 'R':
			s.r()
		}
	}
	return s.canW()
}

// isFanOutCorpus tells whether a corpus file belongs to the fan-out family:
//
//	fanout <k>
//	kind <raw|send|fb>
//	events W<hole mask> A<branch>[e] R …
//	prefix <n>
//	inaction <hole mask>          (optional: one more request is inside the action during the teardown)
//	post <hole mask>              (optional, default 0: the request written after the teardown)
//	actions <outport|inport|reader|writer> <branch> [+ …]
func isFanOutCorpus(path string) bool {
	ls := lib.ReadLines(path)
	return len(ls) > 0 && strings.HasPrefix(ls[0], "fanout ")
}

func parseFanOutCorpus(path string, id int) (p *foPlan, c foCrash, err string) {
	p = &foPlan{id: id, kind: "raw"}
	c.prefix = -1
	for _, l := range lib.ReadLines(path) {
		f := strings.Fields(l)
		num := func(s string, lo, hi int) (int, bool) {
			n, e := strconv.Atoi(s)
			return n, e == nil && n >= lo && n <= hi
		}
		switch f[0] {
		case "fanout":
			n, ok := 0, false
			if len(f) == 2 {
				n, ok = num(f[1], 2, 3)
			}
			if !ok {
				return nil, c, "fanout needs the number of out-ports (2 or 3)"
			}
			p.k = n
		case "kind":
			if len(f) != 2 || (f[1] != "raw" && f[1] != "send" && f[1] != "fb") {
				return nil, c, "kind needs raw, send or fb"
			}
			p.kind = f[1]
		case "events":
			for _, t := range f[1:] {
				switch {
				case t == "R":
					p.events = append(p.events, foEv{kind: 'R'})
				case t[0] == 'W':
					m, ok := num(t[1:], 0, 7)
					if !ok {
						return nil, c, "bad event " + t
					}
					p.events = append(p.events, foEv{kind: 'W', mask: m})
				case t[0] == 'A':
					e := strings.HasSuffix(t, "e")
					b, ok := num(strings.TrimSuffix(t[1:], "e"), 0, 2)
					if !ok {
						return nil, c, "bad event " + t
					}
					p.events = append(p.events, foEv{kind: 'A', b: b, err: e})
				default:
					return nil, c, "bad event " + t
				}
			}
		case "prefix", "inaction", "post":
			n, ok := 0, false
			if len(f) == 2 {
				n, ok = num(f[1], 0, 64)
			}
			if !ok {
				return nil, c, "bad " + f[0]
			}
			switch f[0] {
			case "prefix":
				c.prefix = n
			case "inaction":
				c.inAction, c.inMask = true, n
			case "post":
				c.postMask = n
			}
		case "actions":
			for _, name := range strings.Split(strings.Join(f[1:], " "), "+") {
				g := strings.Fields(name)
				ok := len(g) == 2 && (g[0] == "outport" || g[0] == "inport" || g[0] == "reader" || g[0] == "writer")
				b := 0
				if ok {
					b, ok = num(g[1], 0, 2)
				}
				if !ok {
					return nil, c, "unknown action " + strings.TrimSpace(name)
				}
				c.acts = append(c.acts, foAction{g[0], b})
			}
		default:
			return nil, c, "unknown line " + l
		}
	}
	if p.k == 0 || c.prefix < 0 || c.prefix > len(p.events) || len(c.acts) == 0 || len(c.acts) > 2 {
		return nil, c, "inconsistent case (fanout k, prefix within the schedule, one or two actions)"
	}
	s := newFoSim(p.k, p.kind)
	for i, e := range p.events {
		ok := true
		switch e.kind {
		case 'W':
			if ok = s.canW() && e.mask < 1<<p.k; ok {
				s.w(e.mask)
			}
		case 'A':
			if ok = s.canA(e.b); ok {
				s.a(e.b)
			}
		case 'R':
			if ok = s.canR(); ok {
				s.r()
			}
		}
		if !ok {
			return nil, c, fmt.Sprintf("schedule not executable at event %d", i)
		}
	}
	for _, a := range c.acts {
		if a.b >= p.k {
			return nil, c, "action on a branch the node does not have"
		}
	}
	if c.inMask >= 1<<p.k || c.postMask >= 1<<p.k || (c.inAction && !foCanWrite(p, c.prefix)) {
		return nil, c, "the requester cannot write one more request at the crash point (or a hole mask is out of range)"
	}
	return p, c, ""
}

func foCorpusText(p *foPlan, c foCrash) string {
	var b strings.Builder
	fmt.Fprintf(&b, "fanout %d\nkind %s\nevents %s\nprefix %d\n", p.k, p.kind, foEvents(p.events), c.prefix)
	if c.inAction {
		fmt.Fprintf(&b, "inaction %d\n", c.inMask)
	}
	fmt.Fprintf(&b, "post %d\n", c.postMask)
	var names []string
	for _, a := range c.acts {
		names = append(names, a.name())
	}
	fmt.Fprintf(&b, "actions %s\n", strings.Join(names, " + "))
	return b.String()
}

// runFanOuts runs the fan-out family (oracle only).
func runFanOuts(c *lib.Ctx, rng *lib.RNG, add func(class, what, replay string), progress func(string), stop func() bool) {
	one := func(p *foPlan, cr foCrash) {
		progress(fmt.Sprintf("fan-out scenario %d (%s) events=%s crash: %s", p.id, p.describe(), foEvents(p.events), cr.describe()))
		res := runFanOut(p, cr)
		key := ""
		if res.lowerDead {
			key = fmt.Sprintf("fo%d/%s", p.id, cr.describe())
			c.Hit("fan-out-lower-branch-torn-down-higher-alive")
		}
		c.Count(key)
		c.Hit(fmt.Sprintf("workflow-fan-out-%d", p.k))
		if cr.inAction {
			c.Hit("fan-out-request-inside-the-action")
		}
		for _, fl := range res.fails {
			parts := strings.SplitN(fl, "\t", 2)
			var b strings.Builder
			fmt.Fprintf(&b, "# scenario: %s\n# schedule: %s\n# crash point: %s\n# as a corpus file (corpus/C03/*.ops):\n", p.describe(), foEvents(p.events), cr.describe())
			for _, cl := range strings.Split(strings.TrimSpace(foCorpusText(p, cr)), "\n") {
				fmt.Fprintf(&b, "#   %s\n", cl)
			}
			for _, l := range res.trace {
				fmt.Fprintf(&b, "%s\n", l)
			}
			add(parts[0], parts[1], b.String())
		}
	}
	for i, fl := range c.CorpusFiles() {
		if !isFanOutCorpus(fl) {
			continue
		}
		p, cr, e := parseFanOutCorpus(fl, 700+i)
		if e != "" {
			add("corpus", "unusable corpus file "+fl+": "+e, "")
			continue
		}
		c.Hit("corpus-case")
		one(p, cr)
	}
	n := c.Scale(8, 100)
	maxEv := c.Scale(5, 7)
	for i := 0; i < n && !stop(); i++ {
		p := genFanOut(rng.Fork(), 2000+i, maxEv)
		acts := foActions(p.k)
		for prefix := 0; prefix <= len(p.events) && !stop(); prefix++ {
			canW := foCanWrite(p, prefix)
			mask := func() int {
				if rng.Chance(1, 4) {
					return rng.Intn(1 << p.k)
				}
				return 0
			}
			for _, a := range acts {
				one(p, foCrash{prefix: prefix, postMask: mask(), acts: []foAction{a}})
				if canW {
					one(p, foCrash{prefix: prefix, inAction: true, inMask: mask(), postMask: mask(), acts: []foAction{a}})
				}
			}
			for j := 0; j < 2; j++ {
				a, b := acts[rng.Intn(len(acts))], acts[rng.Intn(len(acts))]
				if a == b {
					continue
				}
				one(p, foCrash{prefix: prefix, inAction: canW && rng.Bool(), inMask: mask(), postMask: mask(), acts: []foAction{a, b}})
			}
		}
	}
}
