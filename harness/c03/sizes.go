package c03

import (
	"fmt"

	"verifharness/lib"
)

// SIZE FAMILIES (the same scenario machinery as the enumeration, run through runCase and compared with
// the model line by line): one requester has 9–40 requests outstanding when its path is torn down, on a
// fresh writer or on one that has already passed k ∈ {1,3,7,8,9} responses to the requester (answers
// collected after all of them were given, so that they waited in the writer's pump together); every
// teardown action of the scenario is applied at the end of the schedule (and, for one action, at a few
// earlier points).  Short schedules never put more than two responses into one pump.

// genSizeScen returns the scenario, the warm-up count and the number of requests left outstanding.
func genSizeScen(rng *lib.RNG, id int) (sc *scen, warm, outstanding int) {
	sc = &scen{id: id, kinds: map[qid]string{}, dropHold: rng.Chance(1, 2), postAns: rng.Chance(1, 3), postReq: rng.Chance(1, 3)}
	if rng.Chance(1, 3) {
		sc.bare = true
		sc.nP = 1
		sc.readers = []int{1, 1}
	} else {
		sc.nP = 2
		sc.nNodes = []int{rng.Intn(3), 0}
	}
	for a := 0; a < sc.paths(); a++ {
		for p := 0; p < sc.nP; p++ {
			sc.kinds[qid{a, p}] = "raw"
		}
	}
	q := qid{0, 0}
	sink := 0 // the sink of path 0 / process 0 in both workflows
	warm = lib.Pick(rng, []int{0, 1, 3, 7, 8, 9})
	outstanding = rng.Range(9, 40)
	ansID := 7000
	for i := 0; i < warm; i++ {
		sc.events = append(sc.events, ev{kind: 'W', q: q})
	}
	for i := 0; i < warm; i++ {
		ansID++
		sc.events = append(sc.events, ev{kind: 'A', k: sink, ans: fmt.Sprintf("v%d", ansID)})
	}
	for i := 0; i < warm; i++ {
		sc.events = append(sc.events, ev{kind: 'R', q: q})
	}
	// a request of the control path in between, answered and received
	if rng.Chance(1, 2) {
		cq := qid{1, 0}
		csink := 1
		if !sc.bare {
			csink = 1 * sc.nP
		}
		ansID++
		sc.events = append(sc.events, ev{kind: 'W', q: cq}, ev{kind: 'A', k: csink, ans: fmt.Sprintf("v%d", ansID)}, ev{kind: 'R', q: cq})
	}
	for i := 0; i < outstanding; i++ {
		sc.events = append(sc.events, ev{kind: 'W', q: q})
	}
	return sc, warm, outstanding
}

func sizeBucket(n int) string {
	switch {
	case n == 0:
		return "0"
	case n <= 8:
		return "1-8"
	case n <= 16:
		return "9-16"
	case n <= 32:
		return "17-32"
	}
	return "33+"
}
