package c03

// The window between a node's first Open of a writer for a process and the start of its backward
// loop.  A node's backward loop is a listener of the out-port: OutPort.Open starts it in its own
// goroutine (`go listeners.Accept(proc)`) and it obtains its writer with a second Open(proc).
// The main enumeration warms every path up, so its crash points all lie after that second Open.
// This family has NO warm-up and lands the teardown
//
//	pos 0  before the first send (the node has not opened its out-port for the process yet),
//	pos 1  between the forward loop's Open of the out-writer and its Write (the forward loop is
//	       parked at the yield point of OutPort.Open, the backward listener before its own Open),
//	pos 2  after the first send has reached the sink, the backward listener still parked before
//	       its own Open,
//	pos 3  inside the process's first Open of the SOURCE out-port: it has taken the snapshot of its
//	       linked in-ports and is parked before it opens them; the node's in-port (or the node) is
//	       closed; the Open goes on and opens the closed in-port – InPort has no readers and no
//	       listeners any more, so a fresh reader is created that nobody listens on; then the first
//	       send: the closed port must answer it with the dropped error,
//
// on a chain  source out-port → node (one-to-one, one-to-many or many-to-one) → sink in-port  of one
// process, with the actions out-port close, node close and (pos 1, 2) writer close.  Then the
// parked goroutines are released, the sink answers what it holds (late), the requester may write
// once more, and must come back: with the dropped error when its request was in flight behind the
// node (pos 2), with the echo of its own request when nothing downstream accepted it (pos 0, 1).
// The goroutines are parked with the verif yield points of pkg/port (VerifSetYield), recognised
// by the function on their stack.

import (
	"fmt"
	"runtime"
	"strings"
	"sync"
	"sync/atomic"
	"time"

	"github.com/siyul-park/uniflow/pkg/node"
	"github.com/siyul-park/uniflow/pkg/packet"
	"github.com/siyul-park/uniflow/pkg/port"
	"github.com/siyul-park/uniflow/pkg/process"

	"verifharness/lib"
)

type winPlan struct {
	nodeKind int    // 0 one-to-one, 1 one-to-many, 2 many-to-one
	pos      int    // 0, 1, 2 (see above)
	act      string // outport | node | writer | inport
	kind     string // raw | send
	post     bool   // one more request afterwards
}

func (p winPlan) String() string {
	kinds := []string{"OneToOneNode", "OneToManyNode", "ManyToOneNode"}
	poss := []string{"before the first send", "between the forward loop's Open and its Write", "after the first send, before the backward listener's own Open",
		"inside the source out-port's Open, after its snapshot of the linked in-ports and before it opens them"}
	return fmt.Sprintf("window: source → %s → sink; requester %s; %s close %s; post=%v", kinds[p.nodeKind], p.kind, p.act, poss[p.pos], p.post)
}

// winOpener is the frame by which the yield hook recognises the harness's own parked Open.
func winOpener(src *port.OutPort, proc *process.Process) *packet.Writer { return src.Open(proc) }

func onStack(sub string) bool {
	buf := make([]byte, 8192)
	n := runtime.Stack(buf, false)
	return strings.Contains(string(buf[:n]), sub)
}

type winResult struct {
	lines, impls []string
	fails        []string
}

func runWindow(p winPlan) (res winResult) {
	emit := func(l, o string) { res.lines = append(res.lines, l); res.impls = append(res.impls, o) }
	fail := func(class, format string, a ...any) {
		res.fails = append(res.fails, class+"\t"+fmt.Sprintf(format, a...))
	}
	for _, l := range []string{"cons 0 req", "lis 0 0 node 1", "cons 1 node 0 0", "lis 1 0 sink 0", "inport 0 0", "inport 1 0",
		"outport 0", "outport 1", "node 0 1", "proc W 0 R 0 0 W 1 R 1 0"} {
		emit(l, "ok")
	}
	if p.pos != 3 { // pos 3: the source writer is never linked to the node's (closed) reader of the process
		emit("link 0 0", "t")
	}
	emit("link 1 0", "t")

	// the workflow
	var nd node.Node
	var aIn *port.InPort
	var aOut *port.OutPort
	switch p.nodeKind {
	case 0:
		n := node.NewOneToOneNode(func(_ *process.Process, in *packet.Packet) (*packet.Packet, *packet.Packet) {
			return packet.New(in.Payload()), nil
		})
		nd, aIn, aOut = n, n.In(node.PortIn), n.Out(node.PortOut)
	case 1:
		n := node.NewOneToManyNode(func(_ *process.Process, in *packet.Packet) ([]*packet.Packet, *packet.Packet) {
			return []*packet.Packet{packet.New(in.Payload())}, nil
		})
		nd, aIn, aOut = n, n.In(node.PortIn), n.Out(node.PortWithIndex(node.PortOut, 0))
	default:
		n := node.NewManyToOneNode(func(_ *process.Process, ins []*packet.Packet) (*packet.Packet, *packet.Packet) {
			return packet.New(ins[0].Payload()), nil
		})
		nd, aIn, aOut = n, n.In(node.PortWithIndex(node.PortIn, 0)), n.Out(node.PortOut)
	}
	src := port.NewOut()
	sink := port.NewIn()
	src.Link(aIn)
	aOut.Link(sink)
	arrCh := make(chan int, 8)
	sink.AddListener(port.ListenFunc(func(proc *process.Process) {
		for pck := range sink.Open(proc).Read() {
			arrCh <- payloadOf(pck)
		}
	}))
	proc := process.New()

	// parking
	var parkFwd, parkBwd, parkOpen atomic.Bool
	var fwdOnce, openOnce sync.Once
	fwdGate, bwdGate, openGate := make(chan struct{}), make(chan struct{}), make(chan struct{})
	fwdParked, bwdParked, openParked := make(chan struct{}, 1), make(chan struct{}, 4), make(chan struct{}, 1)
	port.VerifSetYield(func(site int) {
		switch {
		case site == port.VerifSiteOpenAfterStatus && parkBwd.Load() && onStack(").backward"):
			bwdParked <- struct{}{}
			<-bwdGate
		case site == port.VerifSiteOpenBeforeAddExitHook && parkFwd.Load() && onStack(").forward"):
			fwdOnce.Do(func() {
				fwdParked <- struct{}{}
				<-fwdGate
			})
		case site == port.VerifSiteOpenBeforeAddExitHook && parkOpen.Load() && onStack("winOpener"):
			openOnce.Do(func() {
				openParked <- struct{}{}
				<-openGate
			})
		}
	})
	released := false
	release := func() {
		if !released {
			released = true
			parkFwd.Store(false)
			parkBwd.Store(false)
			parkOpen.Store(false)
			close(fwdGate)
			close(bwdGate)
			close(openGate)
		}
	}
	defer func() {
		release()
		port.VerifSetYield(nil)
		lib.Safe(func() {
			proc.Exit(nil)
			src.Close()
			_ = nd.Close()
			sink.Close()
		})
	}()

	actLine := map[string]string{"outport": "down outport 1", "node": "down node 0", "writer": "down writer 1", "inport": "down inport 0"}
	var w *packet.Writer
	if p.pos == 3 {
		parkOpen.Store(true)
		wch := make(chan *packet.Writer, 1)
		go func() { wch <- winOpener(src, proc) }()
		select {
		case <-openParked:
		case <-time.After(watchdog):
			fail("setup", "the source out-port's Open did not reach its yield point")
			return
		}
		if pmsg := lib.Safe(func() {
			if p.act == "inport" {
				aIn.Close()
			} else {
				_ = nd.Close()
			}
		}); pmsg != "" {
			fail("panic", "%s close panicked: %s", p.act, pmsg)
		}
		emit(actLine[p.act], "u")
		release()
		select {
		case w = <-wch:
		case <-time.After(watchdog):
			fail("blocked", "the source out-port's Open did not return after the in-port was closed")
			return
		}
		// the closed in-port has handed out a fresh reader: reader 1 of the source writer, listened to
		// by the port's own drop loop (sink 9)
		emit("lis 0 1 sink 9", "ok")
		emit("link 0 1", "t")
	} else {
		w = src.Open(proc)
	}
	r := &requester{q: qid{0, 0}, wid: 0, w: w, kind: p.kind, cmd: make(chan reqCmd, 8), res: make(chan reqRes, 8)}
	go r.loop()
	defer close(r.cmd)
	reply := func() (reqRes, bool) {
		select {
		case x := <-r.res:
			return x, true
		case <-time.After(watchdog):
			return reqRes{}, false
		}
	}
	nextV := 1
	// write starts a request; returns its payload and, for a raw requester, the count
	write := func() (v, cnt int, ok bool) {
		v = nextV
		nextV++
		if r.kind == "raw" {
			r.cmd <- reqCmd{"write", v}
			x, got := reply()
			if !got || x.panicked != "" {
				fail("blocked", "the requester's Write did not return (panic %q)", x.panicked)
				return v, 0, false
			}
			if x.cnt > 0 {
				r.owedRecv++
			}
			return v, x.cnt, true
		}
		r.cmd <- reqCmd{op: "send", v: v}
		r.inSend = true
		return v, -1, true
	}
	act := func() {
		pmsg := lib.Safe(func() {
			switch p.act {
			case "outport":
				aOut.Close()
			case "node":
				_ = nd.Close()
			case "writer":
				aOut.Open(proc).Close()
			}
		})
		if pmsg != "" {
			fail("panic", "%s close panicked: %s", p.act, pmsg)
		}
		emit(actLine[p.act], "u")
	}
	var written []int // payloads of the requests written, in order
	held := 0         // requests the sink holds
	switch p.pos {
	case 0:
		act()
	case 1:
		parkFwd.Store(true)
		parkBwd.Store(true)
		v, cnt, ok := write()
		if !ok {
			return
		}
		written = append(written, v)
		select {
		case <-fwdParked:
		case <-time.After(watchdog):
			fail("setup", "the forward loop did not reach OutPort.Open")
			return
		}
		if cnt < 0 {
			cnt = 1
		}
		emit(fmt.Sprintf("wwrite 0 %d", v), fmt.Sprintf("n%d", cnt))
		act()
		release()
		emit("relay", "u")
		emit("bwdlate 1", "u")
	case 2:
		parkBwd.Store(true)
		v, cnt, ok := write()
		if !ok {
			return
		}
		written = append(written, v)
		select {
		case got := <-arrCh:
			if got != v {
				fail("lost-request", "request %d written, the sink read %d", v, got)
				return
			}
			held++
		case <-time.After(watchdog):
			fail("lost-request", "the first request did not reach the sink")
			return
		}
		select {
		case <-bwdParked:
		case <-time.After(watchdog):
			fail("setup", "the backward listener did not reach its Open")
			return
		}
		if cnt < 0 {
			cnt = 1
		}
		emit(fmt.Sprintf("write 0 %d", v), fmt.Sprintf("n%d d0:%d", cnt, v))
		act()
		release()
		emit("bwdlate 1", "u")
		// the sink answers late
		ret := false
		lib.Safe(func() { ret = sink.Open(proc).Receive(mkAns(fmt.Sprintf("v%d", v+answerBase))) })
		held--
		emit(fmt.Sprintf("pans 0 v %d", v+answerBase), tf(ret))
	}
	if p.pos == 3 {
		v, cnt, ok := write()
		if !ok {
			return
		}
		written = append(written, v)
		if cnt < 0 {
			cnt = 1
		}
		emit(fmt.Sprintf("wwrite 0 %d", v), fmt.Sprintf("n%d", cnt))
		if cnt > 0 {
			emit("pans 9 e 0", "t") // the closed port answers what is written to it with the dropped error
		}
	}
	// collect what is owed so far, then one more request
	lastFallback := false
	collect := func(what string) bool {
		lastFallback = false
		n := r.owedRecv
		if r.kind != "raw" {
			n = 0
			if r.inSend {
				n = 1
			}
		} else {
			for k := 0; k < n; k++ {
				r.cmd <- reqCmd{op: "recv"}
			}
		}
		for k := 0; k < n; k++ {
			select {
			case x := <-r.res:
				r.inSend = false
				if r.kind == "raw" {
					r.owedRecv--
				}
				switch {
				case x.panicked != "":
					fail("panic", "the requester panicked: %s", x.panicked)
					r.got = append(r.got, "panic")
				case x.closed:
					fail("closed-channel", "the requester received the zero value of the closed Receive() channel although its own writer was not closed")
					r.got = append(r.got, "closed")
				case x.fallback:
					// Send: Write reported no accepting reader – nothing was owed
					lastFallback = true
				default:
					r.got = append(r.got, canon(x.pck))
					if x.pck == nil {
						fail("nil-packet", "the requester was handed a nil packet")
					}
				}
			case got := <-arrCh:
				// a request reached the sink although the node's out-port (or the node) had been closed before it was written
				held++
				fail("reached-closed-port", "%s: request %d reached the sink although the teardown had closed the node's out side before it was written", what, got)
				return false
			case <-time.After(watchdog):
				r.blocked++
				fail("blocked", "%s: the requester is still blocked %v after the teardown (%d responses owed)", what, watchdog, n-k)
				return false
			}
		}
		return true
	}
	ok := collect("first request")
	if ok && (p.post || p.pos == 0) {
		v, cnt, wrote := write()
		if wrote {
			written = append(written, v)
			idx := len(res.lines)
			emit(fmt.Sprintf("pwrite 0 %d", v), fmt.Sprintf("n%d", cnt))
			if p.pos == 3 && cnt != 0 {
				emit("pans 9 e 0", "t")
			}
			ok = collect("request written after the teardown")
			if cnt < 0 { // Send hides the count: accepted unless the fallback came back
				if lastFallback {
					res.impls[idx] = "n0"
				} else {
					res.impls[idx] = "n1"
				}
			}
		}
	}
	// what the requester received in total
	acc := 0
	for range r.got {
		acc++
	}
	out := "-"
	if acc > 0 || r.blocked > 0 {
		out = "w0:" + strings.Join(r.got, ",")
		if r.blocked > 0 {
			out += fmt.Sprintf(";blocked%d", r.blocked)
		}
	}
	emit("settle", out)
	// oracle: every received packet is the dropped error, the echo of one of the requester's own
	// requests, or the answer derived from one of them
	for _, g := range r.got {
		okv := g == "E0"
		for _, v := range written {
			if g == fmt.Sprintf("v%d", v) || g == fmt.Sprintf("v%d", v+answerBase) {
				okv = true
			}
		}
		if !okv && g != "panic" && g != "closed" && g != "nil" {
			fail("wrong-answer", "the requester received %s: neither the dropped error nor the echo of / the answer to one of its requests %v", g, written)
		}
	}
	_ = held
	return res
}

// isWinCorpus tells whether a corpus file belongs to this family:
//
//	window <node kind 0|1|2> <pos 0|1|2|3> <outport|node|writer|inport> <raw|send> [post]
func isWinCorpus(path string) bool {
	ls := lib.ReadLines(path)
	return len(ls) > 0 && strings.HasPrefix(ls[0], "window ")
}

func parseWinCorpus(path string) (p winPlan, err string) {
	f := strings.Fields(lib.ReadLines(path)[0])
	if len(f) < 5 || len(f) > 6 {
		return p, "window needs: node kind, position, action, requester kind [post]"
	}
	if n, e := fmt.Sscanf(f[1]+" "+f[2], "%d %d", &p.nodeKind, &p.pos); n != 2 || e != nil || p.nodeKind < 0 || p.nodeKind > 2 || p.pos < 0 || p.pos > 3 {
		return p, "bad node kind / position"
	}
	p.act, p.kind = f[3], f[4]
	if (p.act != "outport" && p.act != "node" && p.act != "writer" && p.act != "inport") || (p.kind != "raw" && p.kind != "send") || (p.act == "writer" && p.pos == 0) ||
		((p.pos == 3) != (p.act == "inport" || (p.pos == 3 && p.act == "node"))) {
		return p, "bad action / requester kind"
	}
	if len(f) == 6 {
		if f[5] != "post" {
			return p, "unknown flag " + f[5]
		}
		p.post = true
	}
	return p, ""
}

// runWindows enumerates the family.
func runWindows(c *lib.Ctx, model *lib.Script, add func(class, what, replay string), progress func(string)) {
	failures := 0
	one := func(p winPlan) {
		progress(p.String())
		res := runWindow(p)
		c.Count(fmt.Sprintf("window/%d/%d/%s/%s/%v", p.nodeKind, p.pos, p.act, p.kind, p.post))
		c.Hit(fmt.Sprintf("window-pos-%d", p.pos))
		model.Begin()
		for i, l := range res.lines {
			model.Op(l, res.impls[i])
		}
		for _, fl := range res.fails {
			failures++
			parts := strings.SplitN(fl, "\t", 2)
			var b strings.Builder
			fmt.Fprintf(&b, "# scenario: %s\n# as a corpus file: window %d %d %s %s\n", p, p.nodeKind, p.pos, p.act, p.kind)
			for i, l := range res.lines {
				fmt.Fprintf(&b, "%s\t=> impl: %s\n", l, res.impls[i])
			}
			add(parts[0], parts[1], b.String())
		}
	}
	for _, fl := range c.CorpusFiles() {
		if !isWinCorpus(fl) {
			continue
		}
		p, e := parseWinCorpus(fl)
		if e != "" {
			add("corpus", "unusable corpus file "+fl+": "+e, "")
			continue
		}
		c.Hit("corpus-case")
		one(p)
	}
	for nodeKind := 0; nodeKind < 3; nodeKind++ {
		for pos := 0; pos < 4; pos++ {
			for _, actn := range []string{"outport", "node", "writer", "inport"} {
				if actn == "writer" && pos == 0 {
					continue // the writer does not exist yet
				}
				if (pos == 3) != (actn == "inport" || (pos == 3 && actn == "node")) {
					continue // pos 3 closes the node's in side (in-port or node); the other positions its out side
				}
				for _, kind := range []string{"raw", "send"} {
					for _, post := range []bool{false, true} {
						if pos == 0 && post {
							continue // pos 0 always writes afterwards
						}
						if failures >= 3 {
							c.Hit("window-skipped-after-failures")
							continue
						}
						one(winPlan{nodeKind: nodeKind, pos: pos, act: actn, kind: kind, post: post})
					}
				}
			}
		}
	}
}
