#!/usr/bin/env python3
"""bin/freeze_outlines.py <Generated module> <property> <Tie file> [--append]

Writes (or appends to) lean/Uniflow/Props/<Tie file>.lean one theorem per source file of the generated
module lean/Uniflow/Generated/<module>.lean: `<property>.src_<package>_<file>_as_modelled`, stating that the
regenerated outlines of that file equal the transcript frozen HERE, NOW. Run by hand when a model is
(re)transcribed from the source – never by bin/check: a tie regenerated on every run would tie nothing.
"""
import re, sys, subprocess, datetime
mod, prop, tie = sys.argv[1], sys.argv[2], sys.argv[3]
append = '--append' in sys.argv
src = open(f'/verif/lean/Uniflow/Generated/{mod}.lean').read()
defs = re.findall(r'^def (\w+) : List String := (\[\n.*?\n\]|\[[^\n]*\])\n', src, re.S | re.M)
# group: a names_<pkg>_<file> def closes the group of the o_<pkg>_<file>_* defs before it
groups, cur = [], []
for name, body in defs:
    cur.append((name, body))
    if name.startswith('names_'):
        groups.append((name[len('names_'):], cur)); cur = []
commit = subprocess.run(['git', '-C', '/repo', 'rev-parse', '--short', 'HEAD'], capture_output=True, text=True).stdout.strip()
out = []
thms = []
if not append:
    out.append(f"""/-
{prop} – regenerated tie over Generated/{mod}.lean (extract/funcs.go): for every source file the models of this
property were transcribed from, the outline of EVERY function of that file – regenerated from /repo on every run –
equals the transcript frozen here (bin/freeze_outlines.py, repo {commit}, {datetime.date.today().isoformat()}). A theorem that stops checking
names the file whose code is no longer the code that was modelled; bin/check then searches for a failing input.
-/
import Uniflow.Generated.{mod}

""")
else:
    out.append(f"\n/-! ## Generated/{mod}.lean (frozen at repo {commit}) -/\n")
for key, items in groups:
    if all(b.strip() == '[]' for n, b in items):
        continue
    # chunks of at most ~100 outline lines per theorem (kernel recursion depth of `decide` on long lists)
    chunks, cur, size = [], [], 0
    for n, b in items:
        k = b.count('\n') + 1
        if cur and size + k > 100:
            chunks.append(cur); cur, size = [], 0
        cur.append((n, b)); size += k
    if cur:
        chunks.append(cur)
    for ci, ch in enumerate(chunks):
        conj = ' ∧\n    '.join(f"Uniflow.Generated.{mod}.{n} = {b.replace(chr(10), chr(10)+'    ')}" for n, b in ch)
        suffix = '' if len(chunks) == 1 else f'_{ci+1}'
        part = '' if len(chunks) == 1 else f' (part {ci+1} of {len(chunks)})'
        thms.append((sum(b.count(chr(10))+1 for n, b in ch), f"set_option maxRecDepth 16384 in\n/-- pkg/{key.replace('_', '/', 1)}.go as modelled{part}: its declarations (in source order) and the outline of each -/\ntheorem {prop}.src_{key}_as_modelled{suffix} :\n    {conj} := by\n  decide\n\n"))
split = 1
for a in sys.argv:
    if a.startswith('--split='):
        split = int(a.split('=')[1])
bins = [[0, []] for _ in range(split)]
for size, text in sorted(thms, key=lambda t: -t[0]):
    b = min(bins, key=lambda x: x[0]); b[0] += size; b[1].append(text)
for i, (size, texts) in enumerate(bins):
    name = tie if split == 1 else f'{tie}{i+1}'
    path = f'/verif/lean/Uniflow/Props/{name}.lean'
    open(path, 'a' if append else 'w').write(''.join(out) + ''.join(texts))
    print(path, len(texts), 'theorems', size, 'lines')
