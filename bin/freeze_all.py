#!/usr/bin/env python3
"""bin/freeze_all.py – (re)writes the function-outline ties of the files NOT covered by the earlier hand-made freezes
(C14Tie1-2, C15TieSrc, C16Tie1-6, C17Tie, C18Tie): Props/<P>TieFn<i>.lean with the theorems
`<P>.src_<package>_<file>_as_modelled[_k]` for the property the file is filed under, and Props/<Q>TieRe.lean with
re-statements (`theorem Q.x : type_of% P.x := P.x`) for every other property anchored in that file.
Run by hand when a model is (re)transcribed – never by bin/check."""
import re, subprocess, datetime, collections, os
V = '/verif'
commit = subprocess.run(['git', '-C', '/repo', 'rev-parse', '--short', 'HEAD'], capture_output=True, text=True).stdout.strip()
today = datetime.date.today().isoformat()
# (module, file key) -> (primary property, [re-stated for])
PLAN = {
 ('PacketFuncs', 'packet_packet'): ('C01', []),
 ('PacketFuncs', 'packet_reader'): ('C01', ['C03', 'C05', 'C19']),
 ('PacketFuncs', 'packet_writer'): ('C01', ['C03', 'C05', 'C19']),
 ('FlowFuncs', 'packet_tracer'): ('C02', ['C03', 'C05']),
 ('FlowFuncs', 'packet_readgroup'): ('C02', []),
 ('FlowFuncs', 'node_onetoone'): ('C02', ['C03']),
 ('FlowFuncs', 'node_onetomany'): ('C02', []),
 ('FlowFuncs', 'node_manytoone'): ('C02', []),
 ('FlowFuncs', 'port_pipe'): ('C02', []),
 ('PortFuncs', 'port_inport'): ('C05', ['C03', 'C06', 'C19']),
 ('PortFuncs', 'port_outport'): ('C05', ['C03', 'C06', 'C19']),
 ('ProcessFuncs', 'process_process'): ('C04', ['C03']),
 ('ProcessFuncs', 'process_exithook'): ('C04', []),
 ('ProcessFuncs', 'process_local'): ('C05', []),
 ('AgentFuncs', 'runtime_agent'): ('C19', ['C05']),
 ('AgentFuncs', 'runtime_breakpoint'): ('C19', []),
 ('AgentFuncs', 'runtime_debugger'): ('C19', []),
 ('RuntimeFuncs', 'runtime_runtime'): ('C09', []),
 ('RuntimeFuncs', 'scheme_scheme'): ('C09', ['C16']),
 ('StoreFuncs', 'store_store'): ('C10', ['C11', 'C12', 'C13']),
 ('StoreFuncs', 'store_segment'): ('C12', ['C11']),
 ('StoreFuncs', 'store_stream'): ('C13', ['C09']),
 ('StoreFuncs', 'store_executionplan'): ('C11', []),
 ('StoreFuncs', 'store_helper'): ('C10', []),
 ('StoreFuncs', 'store_cursor'): ('C10', []),
 ('SymbolFuncs', 'symbol_table'): ('C06', ['C07', 'C08', 'C03']),
 ('SymbolFuncs', 'symbol_symbol'): ('C06', []),
 ('SymbolFuncs', 'symbol_loadhook'): ('C07', []),
 ('SymbolFuncs', 'symbol_unloadhook'): ('C07', []),
 ('SymbolFuncs', 'hook_hook'): ('C07', []),
}
# earlier freezes, re-stated for the other properties anchored in those files
RE_EXISTING = {
 'C09': [('C18Tie', r'C18\.src_spec_(?:spec|unstructured)_as_modelled\w*')],
 'C14': [('C15TieSrc', r'C15\.src_types_map_as_modelled\w*')],
 'C10': [('C15TieSrc', r'C15\.src_types_map_as_modelled\w*')],
}
def groups_of(mod):
    src = open(f'{V}/lean/Uniflow/Generated/{mod}.lean').read()
    defs = re.findall(r'^def (\w+) : List String := (\[\n.*?\n\]|\[[^\n]*\])\n', src, re.S | re.M)
    gs, cur = {}, []
    for name, body in defs:
        cur.append((name, body))
        if name.startswith('names_'):
            gs[name[len('names_'):]] = cur; cur = []
    return gs
thms = collections.defaultdict(list)      # property -> [(size, module, name, text)]
restate = collections.defaultdict(list)   # property -> [(primary property, theorem name)]
cache = {}
for (mod, key), (prop, others) in PLAN.items():
    gs = cache.setdefault(mod, groups_of(mod))
    items = gs[key]
    chunks, cur, size = [], [], 0
    for n, b in items:
        k = b.count('\n') + 1
        if cur and size + k > 100:
            chunks.append(cur); cur, size = [], 0
        cur.append((n, b)); size += k
    if cur: chunks.append(cur)
    for ci, ch in enumerate(chunks):
        conj = ' ∧\n    '.join(f"Uniflow.Generated.{mod}.{n} = {b.replace(chr(10), chr(10)+'    ')}" for n, b in ch)
        suffix = '' if len(chunks) == 1 else f'_{ci+1}'
        part = '' if len(chunks) == 1 else f' (part {ci+1} of {len(chunks)})'
        name = f'{prop}.src_{key}_as_modelled{suffix}'
        text = (f"set_option maxRecDepth 16384 in\n/-- pkg/{key.replace('_', '/', 1)}.go as modelled{part}: its declarations (in source order) "
                f"and the outline of each -/\ntheorem {name} :\n    {conj} := by\n  decide\n\n")
        thms[prop].append((sum(b.count('\n') + 1 for n, b in ch), mod, name, text))
        for q in others:
            restate[q].append((prop, name))
for f in os.listdir(f'{V}/lean/Uniflow/Props'):
    if re.match(r'C\d\dTie(Fn\d+|Re)\.lean$', f): os.remove(f'{V}/lean/Uniflow/Props/{f}')
where = {}
for prop, ts in sorted(thms.items()):
    total = sum(t[0] for t in ts)
    nb = max(1, (total + 299) // 300)
    bins = [[0, []] for _ in range(nb)]
    for t in sorted(ts, key=lambda t: -t[0]):
        b = min(bins, key=lambda x: x[0]); b[0] += t[0]; b[1].append(t)
    for i, (size, items) in enumerate(bins):
        modname = f'{prop}TieFn{i+1}'
        mods = sorted(set(t[1] for t in items))
        hdr = (f"/-\n{prop} – regenerated tie over {', '.join('Generated/'+m+'.lean' for m in mods)} (extract/funcs.go): the outline of EVERY function of the source\n"
               f"files named below – regenerated from /repo on every run – equals the transcript frozen here (bin/freeze_all.py, repo {commit},\n{today}). A theorem that stops checking names the file whose code is no longer the code that was modelled; bin/check then\nsearches for a failing input.\n-/\n"
               + ''.join(f'import Uniflow.Generated.{m}\n' for m in mods) + '\n')
        open(f'{V}/lean/Uniflow/Props/{modname}.lean', 'w').write(hdr + ''.join(t[3] for t in items))
        for t in items: where[t[2]] = modname
        print(modname, len(items), 'theorems', size, 'lines')
for q, lst in RE_EXISTING.items():
    for modname, pat in lst:
        src = open(f'{V}/lean/Uniflow/Props/{modname}.lean').read()
        for n in [m.group(1) for m in re.finditer(r'^theorem (' + pat + r')(?![\w])', src, re.M)]:
            restate[q].append((n[:3], n)); where[n] = modname
for q, lst in sorted(restate.items()):
    mods = sorted(set(where[n] for _, n in lst))
    out = (f"/-\n{q} – re-statements of the function-outline ties of the files this property is anchored in and that are filed under another\nproperty (bin/freeze_all.py): a source change there is reported for {q} as well.\n-/\n"
           + ''.join(f'import Uniflow.Props.{m}\n' for m in mods) + '\n')
    for p, n in lst:
        out += f"theorem {q}.{n[4:]} : type_of% {n} := {n}\n"
    open(f'{V}/lean/Uniflow/Props/{q}TieRe.lean', 'w').write(out)
    print(f'{q}TieRe', len(lst), 're-statements')
