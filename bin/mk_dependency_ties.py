#!/usr/bin/env python3
"""bin/mk_dependency_ties.py – writes Props/<Q>TieDep.lean: re-statements (`theorem Q.dep_P_<file>… : type_of% P.src_<file>… := P.src_<file>…`)
of the function-outline ties of every source file a property DEPENDS on without being anchored in it. The rule (since the
twelfth round of seeded changes; before that a hand-written table, which missed pkg/process/local.go under C04 and
pkg/types/slice.go under C15): a property depends on
  (a) every file of the PACKAGES its anchored files live in (code of the same package reaches private fields), and
  (b) every file of the packages those packages import, transitively, inside github.com/siyul-park/uniflow/pkg
      (`go list -deps`),
plus a few reverse edges written down by hand (EXTRA: a harness that drives the property through a higher layer).
A change in any such file stops Q's theorems from checking as well; Q's check then looks for a failing input.
Run by hand with /repo clean (it reads Props/*Tie*.lean, properties.jsonl and `go list`); never by bin/check."""
import re, glob, os, collections, json, subprocess
V = '/verif/lean/Uniflow/Props'
env = dict(os.environ, GOFLAGS='-mod=mod', GOPROXY='off', GOSUMDB='off', GOTOOLCHAIN='local', GOWORK='off')
def deps(pkg):
    out = subprocess.run(['go', 'list', '-deps', './pkg/' + pkg], cwd='/repo', env=env, capture_output=True, text=True).stdout
    return {l.split('/pkg/')[1] for l in out.split() if 'siyul-park/uniflow/pkg/' in l}
anchors = {}
for l in open('/verif/properties.jsonl'):
    p = json.loads(l)
    anchors[p['id']] = p['anchors']['files']
# reverse edges: the harness of Q drives Q's code through these packages
EXTRA = {'C03': ['node', 'symbol'], 'C05': ['node', 'runtime'], 'C13': ['store'], 'C19': ['symbol', 'node'], 'C08': ['hook'], 'C07': ['hook'], 'C06': ['hook']}
have = collections.defaultdict(list)   # (P, key) -> [(module, theorem name)]
for f in sorted(glob.glob(V + '/*Tie*.lean')):
    mod = os.path.basename(f)[:-5]
    if re.search(r'Tie(Re\d*|Dep)$', mod):
        continue
    for m in re.finditer(r'^theorem (C\d\d)\.src_(\w+?)_as_modelled(_\d+)?\b', open(f).read(), re.M):
        if mod.startswith(m.group(1)):
            have[(m.group(1), m.group(2))].append((mod, m.group(0).split()[1]))
own = collections.defaultdict(set)     # Q -> file keys already stated or re-stated under Q's name (src_ theorems)
for f in sorted(glob.glob(V + '/*.lean')):
    if f.endswith('TieDep.lean'):
        continue
    for m in re.finditer(r'^theorem (C\d\d)\.src_(\w+?)_as_modelled(_\d+)?\b', open(f).read(), re.M):
        own[m.group(1)].add(m.group(2))
total = 0
for q in sorted(anchors):
    if q == 'C20':
        continue   # C20 is anchored in every package; its tie is the lock-fact table
    pk0 = {a.split('/')[1] for a in anchors[q]}
    closure = set(pk0) | set(EXTRA.get(q, []))
    for p in list(closure):
        closure |= deps(p)
    mods, lines = [], []
    for (p, key), items in sorted(have.items()):
        if p == q or key.split('_')[0] not in closure:
            continue
        if key in own[q] and not any(pp != q and kk == key and pp != p for (pp, kk) in have):
            continue   # Q already re-states this file (TieRe) – only one primary exists
        for mod, name in sorted(items, key=lambda x: x[1]):
            if mod not in mods: mods.append(mod)
            lines.append(f"theorem {q}.dep_{name.replace('.src_', '_')} : type_of% {name} := {name}")
    out = ("/-\n" + q + " – re-statements of the function-outline ties of the source files this property DEPENDS on without being anchored in\n"
           "them: the other files of its packages and every package they import (bin/mk_dependency_ties.py; hand-run). A source change\n"
           "there is reported for " + q + " as well.\n-/\n"
           + ''.join(f'import Uniflow.Props.{m}\n' for m in mods) + '\n' + '\n'.join(lines) + '\n')
    open(f'{V}/{q}TieDep.lean', 'w').write(out)
    total += len(lines)
    print(q, sorted(closure), len(lines), 'theorems')
print('total', total)
