#!/usr/bin/env python3
"""bin/mk_dependency_ties.py – writes Props/<Q>TieDep.lean: re-statements (`theorem Q.dep_P_<file>… : type_of% P.src_<file>… := P.src_<file>…`)
of the function-outline ties of source files a property DEPENDS on without being anchored in them (the store under the
runtime, the segment and the planner under the query results, the map under the decoders, the writer and reader under the
nodes …). A change there can break Q although no file of Q's anchors changed (eleventh-round seeded changes c09k, c10k,
c17k were missed exactly so); with these theorems Q's check stops checking as well and looks for a failing input.
Run by hand (it only reads Props/*Tie*.lean); never by bin/check."""
import re, glob, os, collections
V = '/verif/lean/Uniflow/Props'
# property -> [(primary property, file key)]
DEP = {
 'C02': [('C01','packet_packet'),('C01','packet_reader'),('C01','packet_writer'),('C05','port_inport'),('C05','port_outport'),('C04','process_process'),('C01','packet_hook'),('C05','port_openhook'),('C05','port_closehook'),('C05','port_listener')],
 'C03': [('C01','packet_packet'),('C02','node_onetomany'),('C02','node_manytoone'),('C02','packet_readgroup'),('C04','process_exithook'),('C01','packet_hook'),('C05','port_openhook'),('C05','port_closehook'),('C05','port_listener'),('C02','node_node'),('C02','node_port')],
 'C05': [('C04','process_process'),('C04','process_exithook'),('C02','node_onetoone'),('C02','node_onetomany'),('C02','node_manytoone'),('C01','packet_packet'),('C01','packet_hook'),('C02','node_node'),('C02','node_port')],
 'C06': [('C07','symbol_loadhook'),('C07','symbol_unloadhook'),('C05','port_closehook'),('C08','node_proxy'),('C08','symbol_cluster')],
 'C07': [('C06','symbol_symbol'),('C05','port_inport'),('C05','port_outport'),('C08','node_proxy'),('C08','symbol_cluster')],
 'C08': [('C06','symbol_symbol'),('C07','symbol_loadhook'),('C07','symbol_unloadhook'),('C07','hook_hook'),('C05','port_inport'),('C05','port_outport'),('C01','packet_packet'),('C01','packet_reader'),('C01','packet_writer'),('C05','port_listener'),('C05','port_openhook'),('C05','port_closehook'),('C01','packet_hook')],
 'C09': [('C10','store_store'),('C12','store_segment'),('C11','store_executionplan'),('C10','store_helper'),('C10','store_cursor'),('C06','symbol_table'),('C15','types_map'),('C18','template_template'),('C18','template_node')],
 'C10': [('C12','store_segment'),('C11','store_executionplan')],
 'C11': [('C10','store_helper'),('C10','store_cursor'),('C15','types_map')],
 'C12': [('C10','store_helper'),('C11','store_executionplan'),('C15','types_map')],
 'C13': [('C12','store_segment'),('C10','store_helper'),('C15','types_map')],
 'C16': [('C15','types_map'),('C09','scheme_codec'),('C09','scheme_builder')],
 'C17': [('C15','types_map')],
 'C19': [('C02','packet_tracer'),('C04','process_process'),('C06','symbol_symbol'),('C01','packet_packet'),('C01','packet_hook'),('C05','port_openhook'),('C05','port_closehook'),('C05','port_listener')],
}
have = collections.defaultdict(list)   # (P, key) -> [(module, theorem name)]
for f in sorted(glob.glob(V + '/*Tie*.lean')):
    mod = os.path.basename(f)[:-5]
    if mod.endswith('TieRe') or mod.endswith('TieRe2') or mod.endswith('TieDep'):
        continue
    for m in re.finditer(r'^theorem (C\d\d)\.src_(\w+?)_as_modelled(_\d+)?\b', open(f).read(), re.M):
        if not mod.startswith(m.group(1)):
            continue
        have[(m.group(1), m.group(2))].append((mod, m.group(0).split()[1]))
for q, deps in sorted(DEP.items()):
    mods, lines = [], []
    for p, key in deps:
        if not have[(p, key)]:
            raise SystemExit(f'no tie theorem for {p} {key}')
        for mod, name in sorted(have[(p, key)], key=lambda x: x[1]):
            if mod not in mods: mods.append(mod)
            lines.append(f"theorem {q}.dep_{name.replace('.src_', '_')} : type_of% {name} := {name}")
    out = ("/-\n" + q + " – re-statements of the function-outline ties of source files this property DEPENDS on without being anchored in\n"
           "them (bin/mk_dependency_ties.py; hand-run): a source change there is reported for " + q + " as well.\n-/\n"
           + ''.join(f'import Uniflow.Props.{m}\n' for m in mods) + '\n' + '\n'.join(lines) + '\n')
    open(f'{V}/{q}TieDep.lean', 'w').write(out)
    print(q, len(lines), 'theorems from', mods)
