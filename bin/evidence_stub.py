#!/usr/bin/env python3
"""Writes a minimal evidence file when the harness itself could not be built."""
import json, sys, os
verif, prop, tier, seed, why = sys.argv[1:6]
ev = {"property_id": prop, "tier": tier, "seed": int(seed), "level": "other",
      "coverage": {"explanation": "no exploration: " + why, "evaluations": 0, "distinct_nontrivial": 0},
      "wall_s": 0.0, "violations": 1}
os.makedirs(os.path.join(verif, "evidence"), exist_ok=True)
json.dump(ev, open(os.path.join(verif, "evidence", prop + ".json"), "w"), indent=1)
