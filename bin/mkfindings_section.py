#!/usr/bin/env python3
"""Rewrites the section between <!-- FINDINGS:BEGIN --> and <!-- FINDINGS:END --> of DESIGN.md from known_findings.txt."""
import re, os, collections
V = os.path.dirname(os.path.dirname(os.path.abspath(__file__)))
fixed, known = collections.defaultdict(list), collections.defaultdict(list)
for l in open(os.path.join(V, "known_findings.txt")):
    l = l.strip()
    m = re.match(r"fixed: property=(C\d+) (\S+) (.*)", l)
    if m: fixed[m.group(1)].append((m.group(2), m.group(3)))
    m = re.match(r"known: property=(C\d+) class=(\S+) (.*)", l)
    if m: known[m.group(1)].append((m.group(2), m.group(3)))
out = ["<!-- FINDINGS:BEGIN -->", "### 7.1 Outcome (generated from known_findings.txt by bin/mkfindings_section.py)", "",
       "Every defect below was first reproduced on the real code by the property's own check (oracle failure with a replay,",
       "and a `decide`/`rfl` witness on the pinned variant of the model where one exists), then either repaired by a minimal",
       "unguarded `fix:` commit in /repo (hash given; the check passes on the repaired tree and reports the violation again when",
       "the commit is reverted) or listed as a known finding. No fix commit edits an existing test; one early commit (01f8e97)",
       "appended a regression test function of its own to pkg/packet/writer_test.go, every later one touches no test file.", "",
       "**Open known findings**", ""]
for p in sorted(known):
    for c, w in known[p]:
        out.append(f"* **{p} `{c}`** – {w}")
out += ["", f"**Repaired defects ({sum(len(v) for v in fixed.values())} `fix:` commits)**", "", "| property | commit | what failed |", "|---|---|---|"]
for p in sorted(fixed):
    for h, w in fixed[p]:
        out.append(f"| {p} | `{h}` | {w.replace('|', '¦')} |")
out.append("<!-- FINDINGS:END -->")
s = open(os.path.join(V, "DESIGN.md")).read()
blk = "\n".join(out)
if "<!-- FINDINGS:BEGIN -->" in s:
    s = re.sub(r"<!-- FINDINGS:BEGIN -->.*?<!-- FINDINGS:END -->", lambda m: blk, s, flags=re.S)
else:
    s = s.replace("\n---\n\n## 8. Cost, order of work, risks", "\n" + blk + "\n\n---\n\n## 8. Cost, order of work, risks")
open(os.path.join(V, "DESIGN.md"), "w").write(s)
print("findings section:", sum(len(v) for v in fixed.values()), "fixed,", sum(len(v) for v in known.values()), "known")
