#!/usr/bin/env python3
"""Proof-obligation audit for one property.

usage: audit.py <verif dir> <Cnn> <props_built 0|1> <driver_built 0|1> <build log> <out json>

Generates `#print axioms` for every `theorem Cnn.*` of lean/Uniflow/Props/Cnn.lean, runs it
under `lake env lean`, checks every axiom set is within {propext, Classical.choice, Quot.sound},
and greps the project's Lean sources for forbidden constructs.
"""
import json, os, re, subprocess, sys

verif, prop, props_built, driver_built, logpath, out = sys.argv[1:7]
lean = os.path.join(verif, "lean")
ALLOWED = {"propext", "Classical.choice", "Quot.sound"}
FORBIDDEN = re.compile(r"\b(sorry|admit|native_decide|bv_decide|implemented_by|unsafe)\b|^\s*axiom\s|maxHeartbeats\s+0\b")

def strip_comments(src):
    # remove /- ... -/ (nesting-aware) and -- line comments; empty every string literal
    res, depth, i = [], 0, 0
    while i < len(src):
        if src.startswith("/-", i):
            depth += 1; i += 2; continue
        if src.startswith("-/", i) and depth > 0:
            depth -= 1; i += 2; continue
        if depth == 0:
            if src.startswith("'\"'", i):   # the character literal '"'
                res.append("' '"); i += 3; continue
            if src[i] == '"':               # a string literal: its content is data, not code (Generated/*.lean quotes Go source)
                j = i + 1
                while j < len(src) and src[j] != '"':
                    j += 2 if src[j] == "\\" else 1
                res.append('""' + "\n" * src.count("\n", i, j)); i = j + 1; continue
            if src.startswith("--", i):
                j = src.find("\n", i)
                i = len(src) if j < 0 else j
                continue
            res.append(src[i])
        elif src[i] == "\n":
            res.append("\n")
        i += 1
    return "".join(res)

status = {"props_built": props_built == "1", "driver_built": driver_built == "1", "audit_ok": False,
          "theorems": [], "log": "", "broken": [], "grep_clean": True,
          "checker_cmd": f"cd {lean} && lake build Uniflow.Props.{prop} && lake env lean <generated '#print axioms' file for every theorem {prop}.*>"}
try:
    log = open(logpath, errors="replace").read()
except OSError:
    log = ""
status["log"] = log[-6000:]

import glob
props_file = os.path.join(lean, "Uniflow", "Props", prop + ".lean")
props_files = sorted(glob.glob(os.path.join(lean, "Uniflow", "Props", prop + "*.lean")))
names = []
for pf in props_files:
    body = strip_comments(open(pf).read())
    names += re.findall(r"^theorem\s+(" + prop + r"\.[A-Za-z0-9_'.]+)", body, re.M)

# forbidden constructs anywhere in the project sources
bad = []
for root, _, files in os.walk(lean):
    if ".lake" in root:
        continue
    for f in files:
        if f.endswith(".lean"):
            p = os.path.join(root, f)
            for n, line in enumerate(strip_comments(open(p, errors="replace").read()).split("\n"), 1):
                if FORBIDDEN.search(line):
                    bad.append(f"{os.path.relpath(p, lean)}:{n}: {line.strip()[:120]}")
if bad:
    status["grep_clean"] = False
    status["broken"] += ["forbidden construct: " + b for b in bad[:10]]

if status["props_built"] and names:
    os.makedirs(os.path.join(verif, ".build", "audit"), exist_ok=True)
    af = os.path.join(verif, ".build", "audit", prop + ".lean")
    with open(af, "w") as fh:
        for pf in props_files:
            fh.write("import Uniflow.Props." + os.path.basename(pf)[:-5] + "\n")
        for n in names:
            fh.write(f"#print axioms {n}\n")
    r = subprocess.run(["lake", "env", "lean", af], cwd=lean, capture_output=True, text=True)
    text = r.stdout + r.stderr
    found = {}
    for m in re.finditer(r"'([^']+)' depends on axioms: \[([^\]]*)\]", text, re.S):
        found[m.group(1)] = [a.strip() for a in m.group(2).replace("\n", " ").split(",") if a.strip()]
    for m in re.finditer(r"'([^']+)' does not depend on any axioms", text):
        found[m.group(1)] = []
    ok_all = True
    for n in names:
        if n in found:
            ok = set(found[n]) <= ALLOWED
            status["theorems"].append({"name": n, "axioms": found[n], "ok": ok})
            if not ok:
                ok_all = False
                status["broken"].append(f"{n}: axioms {found[n]}")
        else:
            ok_all = False
            status["theorems"].append({"name": n, "axioms": ["?"], "ok": False})
            status["broken"].append(f"{n}: not found by #print axioms")
    status["audit_ok"] = ok_all and status["grep_clean"] and r.returncode == 0
    if r.returncode != 0:
        status["broken"].append("audit file failed to elaborate")
        status["log"] += "\n" + text[-2000:]
else:
    for n in names:
        status["theorems"].append({"name": n, "axioms": ["?"], "ok": False})
    if not status["props_built"]:
        # name the theorems in which the errors occur (nearest preceding `theorem` line)
        seen = set()
        for m in re.finditer(r"Props/(" + prop + r"[A-Za-z0-9]*)\.lean:(\d+):\d+", log):
            ln = int(m.group(2))
            try:
                lines = open(os.path.join(lean, "Uniflow", "Props", m.group(1) + ".lean")).read().split("\n")
            except OSError:
                lines = []
            for i in range(min(ln, len(lines)) - 1, -1, -1):
                mm = re.match(r"theorem\s+(\S+)", lines[i])
                if mm:
                    if mm.group(1) not in seen:
                        seen.add(mm.group(1))
                        status["broken"].append(f"theorem {mm.group(1)} (Props/{prop}.lean:{ln}) no longer checks")
                    break
        errs = re.findall(r"error: ([^\n]*)", log)
        mods = re.findall(r"✖ \[\d+/\d+\] (?:Building|Running) (\S+)", log)
        status["broken"] += [f"module {m} does not build" for m in mods[:8]] + errs[:8]
    if not names:
        status["broken"].append(f"no theorem {prop}.* found in Props/{prop}.lean")

json.dump(status, open(out, "w"), indent=1)
print(f"[audit] {prop}: props_built={status['props_built']} driver_built={status['driver_built']} theorems={len(names)} audit_ok={status['audit_ok']}", file=sys.stderr)
