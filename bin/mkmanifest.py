#!/usr/bin/env python3
"""Regenerates MANIFEST.json from the table below (edit the table, not the JSON)."""
import json, os
V = os.path.dirname(os.path.dirname(os.path.abspath(__file__)))

CLAIMED = {
 "C20": dict(
   category="other", design_ref="DESIGN.md §5 C20, §9.1",
   text="Partial by nature: what is proved is the lock DISCIPLINE, not the Go memory model. (1) Generic Lean theorem C20.lockset_sound: in a trace semantics of Mutex/RWMutex, two conflicting accesses by different threads that each hold a common mutex (the writer exclusively) are separated by a release of that mutex. (2) Re-checked on every run against a fact table REGENERATED from the repository's source by extract/main.go (19 mutex-owning types of the anchor files, 167 methods, ~350 field-access facts with the own mutexes held, ~120 acquisitions, ~245 calls): C20.all_guarded (every field is accessed under one common mutex of its object, or never written after construction, or a channel/sync object, or on a 3-entry reviewed exemption list), C20.segment_under_store_lock, C20.no_self_acquire, C20.lock_order_acyclic / lock_order_reviewed, C20.callouts_as_reviewed (user code runs under a lock only at reviewed sites), C20.sections_reviewed (methods with more than one critical section), C20.snapshots_not_written_in_place (slices aliased out of a critical section are never shifted in place). (3) Search/oracle: race-detector stress program over 11 object kinds, GOMAXPROCS 4 and 16 (quick) / 2,4,16 × 3 seeds (thorough), with panic recovery and deadlock watchdog.",
   note="The extractor (intra-procedural, flow-sensitive lock-state walk; private helpers inherit the locks held at all call sites) is in the trusted base; races through objects published by pointer, unsafe, or outside the 15 anchored files are beyond the table; the race detector only sees schedules that ran. Fixed defects found by the discipline/stress: Local.Store deadlock, in-place slice shifts under Open, agent frames mutated after publication, assemblers holding their lock across re-entrant compilers, WaitGroup misuse in Fork/Join.",
   technique="Lean 4 proof of lock-set soundness + kernel-checked (decide) discipline over a fact table regenerated from source by a translator + race-detector stress search"),
 "C02": dict(
   category="proof", design_ref="DESIGN.md §5 C02, §9.1",
   text="13 Lean theorems about the executable models of packet.Tracer (seven maps, resolve with its slot search and reader loop, transcribed; fixed and pinned variants) and of the node loops as small-step programs in which Read, Link, Write and a backward answer are separate steps: C02.node_contract_partial (one-to-one node: for EVERY schedule of deliver / read / action returns / Link / Write accepted-or-not / downstream answer, with any number of requests in flight, the node's replies equal the specification's and nothing panics), C02.node_answers_in_read_order / spec_answers_in_read_order (k-th reply answers the k-th read, exactly once), C02.spec_reply_content, C02.spec_echo_when_not_accepted, C02.tracer_quiescent_empty (nothing in flight ⇒ all seven maps empty), C02.compose (assume/guarantee composition over a finite acyclic graph), C02.pinned_tree_violates (the reproduced defect, by rfl). One-to-many and many-to-one nodes are covered by correspondence and oracle only (C02.node_contract_full is stated, not proved). Tied to the code by differential execution of random acyclic workflows of 1–6 real nodes (chains, fan-out, diamonds, fan-in, unconnected and error outputs; 1–4 pipelined requests; actions blocked on harness channels; every line of the schedule compared with the whole-graph model) plus an independent Go reference of the request tree.",
   note="Partial: the proved contract is for the one-to-one node with fresh action outputs; compose is abstract (not instantiated with the concrete node theorem). The C01 writer contract is a hypothesis built into the answer step. Tracer methods are atomic steps (Tracer.mu); real runs interleave only at action and sink boundaries, finer interleavings are covered by the theorem alone. Fixed defect: resolve answered a read whose derived packets were not registered yet. Trusted: Lean kernel, harness (incl. its Go reference simulator), VerifTracer/VerifLen hooks.",
   technique="Lean 4 proof (simulation between the tracer/node machine and a per-request specification, all schedules) + model/implementation differential correspondence"),
 "C09": dict(
   category="proof", design_ref="DESIGN.md §5 C09, §9.1",
   text="13 Lean theorems about the executable model of runtime.Runtime (Load transcribed step by step: find specs in namespace ∧ filter → fetch referenced values → bind → compare with the table → insert only when different → free what matches the filter but not the result; Reconcile as consumption of spec/value events): C09.load_exact / load_exact_filtered / load_exact_reachable (after Load the table equals the target computed from the stores, for every reachable state), C09.load_idempotent / load_silent_when_exact / reload_after_full_load_silent (a reload in an unchanged world emits no notification), C09.converges_invariant / converges / converges_eventually (for every history of store mutations, loads and event consumptions: whenever both event queues are empty the table equals the target; draining terminates), C09.converges_concurrent (Load split into read and commit with mutations in between, at most one Load in flight – what the loadMu fix guarantees). Tied to the code by differential execution of a real Runtime over two in-memory stores (sequential histories with Load at random points compared after every Load; Watch+Reconcile compared at quiescence; overlap scenarios driven through a verif yield hook).",
   note="Store mutations, Loads and event consumptions are atomic steps (store mutex, loadMu); values are abstract versions, text/template is not modelled (C18), specs have no ports (C06–C08 own linking); a second Watch (which replaces the streams) is excluded from the convergence theorems. Fixed defects: DeepEqual of unstructured vs typed spec (reload restarted everything), $or planner narrowing (missed referenced values), unsynchronised overlapping Loads. Trusted: Lean kernel, harness, VerifSymbols/VerifLoadYield hooks.",
   technique="Lean 4 proof (coverage invariant by induction over histories; idempotence of Load) + model/implementation differential correspondence"),
 "C06": dict(
   category="proof", design_ref="DESIGN.md §5 C06–C08, §9.1",
   text="7 Lean theorems about the executable model of symbol.Table (insert/free/close/links/unlinks/linked/isActivated/load/unload/exec transcribed from table.go, Go map iteration orders as explicit parameters, theorems hold for every order): C06.wiring_exact (for every well-formed history of Insert/Free/Close, whatever the operations returned: a link exists iff source and target are live, in the same namespace, the ports exist and the source's spec names the target by id or by live name – hence no stale and no cross-namespace links: C06.wiring_no_stale, C06.wiring_same_namespace), C06.names_exact, C06.lookup_latest. Tied to the code by differential execution of histories (≤14 ops, universes with shared targets, cycles, self and dangling references, renames, 2 namespaces; 4k cases quick, 120k thorough) on the real Table with real nodes, comparing keys, links, the reverse-reference index and the active set after every operation, plus an independent wiring oracle.",
   note="The port layer is reduced to a set of links with the close rule; *Symbol pointers are ids; fuelled loops return an explicit panic on exhaustion (never hit; fuel sufficiency not proved). Assumptions: live names unique per namespace, exactly one of id/name per reference, Table methods atomic (C20). Trusted: Lean kernel, harness, VerifReferences hook.",
   technique="Lean 4 proof (invariant by induction over operation histories, order-parametric) + model/implementation differential correspondence"),
 "C07": dict(
   category="proof", design_ref="DESIGN.md §5 C06–C08, §9.1",
   text="5 Lean theorems on the same Table model: C07.isActivated_iff_closure (in every reachable state the table's activation test on a live symbol is true exactly when the transitive closure predicate of the statement holds – cycles included), C07.reachable_keyId, C07.linked_nodup (a symbol is listed at most once per operation – what the second fix establishes), C07.linked_dup_on_pinned (decide witness of the pinned double load). The history-level statements (active set = closure set after every operation, load/unload alternation, unload before close, Close unloads all) are stated as defs and NOT yet proved; they are checked on the implementation by the oracle after every operation of every generated history.",
   note="Partial: the history-level theorems need references_exact through the unlinks filter and completeness of linked's queue loops. Same model, correspondence and assumptions as C06. Two defects fixed (unlinks && → ||; linked listing a cycle's root twice).",
   technique="Lean 4 proof (state-level characterisation of activation) + model/implementation differential correspondence + implementation oracle for the history-level clauses"),
 "C08": dict(
   category="proof", design_ref="DESIGN.md §5 C06–C08, §9.1",
   text="8 Lean theorems on the same Table model: C08.lifecycle_order_load / lifecycle_order_unload (load and unload change only the log, appending one block [init flow, load hooks, begin flow] resp. [term flow, unload hooks, final flow] per activated symbol of linked, in linked's order resp. reversed; exactly one block each when the result is nil), C08.error_aborts_load / unload / free / insert / close (a returned error is exactly the answer of the last flow run, nothing runs after it, and a failed free phase changes nothing). Dependencies-first (C08.deps_first_full: linked is a linear extension for acyclic graphs) is stated but NOT yet proved; it is checked on the real log by the oracle.",
   note="Partial: Kahn's counting invariant for linked is not proved. Lifecycle flows are a parameter respond : id → port → ok | err; map-order-dependent abort points of Close are not generated. Same model, correspondence and assumptions as C06.",
   technique="Lean 4 proof (structure of the event log of one table operation) + model/implementation differential correspondence + implementation oracle for dependency order"),
 "C14": dict(
   category="proof", design_ref="DESIGN.md §5 C14",
   text="15 Lean theorems for ALL values of the mutual inductive Val (every integer/float width, strings, binaries, booleans, errors, nil, nested slices and maps; no well-formedness hypothesis needed): C14.equal_refl / equal_symm / equal_trans, C14.cmp_antisymm (cmp a b = -cmp b a), C14.cmp_trans (+ strict variants), C14.cmp_total, C14.equal_iff_cmp_zero, C14.equal_hash, C14.cross_kind. Floats are IEEE-754 bit patterns with the cmp.Compare order, hashing is FNV-1a-64 re-implemented on UInt64; kind ranks come from Generated/Kinds.lean, regenerated from value.go on every run. Tied to the code by differential execution of Equal/Compare/Hash on pools of 64–80 delicate values (all ordered pairs: 33k quick, 384k thorough) and an independent Go oracle of the laws incl. stability under mutation of derived values.",
   note="hash/fnv and IEEE-754 ordering are re-implemented in Lean and tied to Go by the correspondence only; amd64 (64-bit int, little-endian integer hashing) assumed; mutable and immutable views of a map are one model value; Buffer values are covered by the oracle only. Trusted: Lean kernel, harness, extractor for the Kind table.",
   technique="Lean 4 proof (mutual structural induction over values) + model/implementation differential correspondence"),
 "C15": dict(
   category="proof", design_ref="DESIGN.md §5 C15",
   text="11 Lean theorems about the heap model of types.Map (tables and mutable objects are addressed, so aliasing bugs can exist in the model): C15.search_correct (binary search in a bucket), C15.buckets_sorted (table invariant preserved by every program of Set/Delete/Clear/Mutable/Immutable on any handles, colliding hashes included), C15.no_panic, C15.map_refines_partial (per-step dictionary laws keyed by value equality: Get/Has/Set/Delete/Len/Keys/Range), C15.snapshot_stable / snapshot_stable_general (no operation on any handle derived from an immutable map changes any table that existed before). The whole-history refinement against the association-list spec is stated (C15.map_refines_full) but not proved. Tied to the code by differential execution of op histories over a 19-key colliding key set with every retained snapshot re-read after every step.",
   note="Bucket arrays are stored by value inside tables: the pinned bucket-sharing bug itself is not expressible in the model (it is covered by the oracle and the corpus witness). mutableMap.Immutable() aliasing follows the 'derived from' reading. Trusted: Lean kernel, harness, value model of C14.",
   technique="Lean 4 proof (heap invariant by induction over operation programs, frame rule for snapshots) + model/implementation differential correspondence"),
 "C01": dict(
   category="proof", design_ref="DESIGN.md §5 C01",
   text="21 Lean theorems over ALL histories of {link, unlink, write, answer, close reader, deliver drop, close writer} on the index-addressed model of packet.Writer/Reader: C01.no_panic (index arithmetic in range), C01.exactly_one_response (#responses + #pending = #accepted writes), C01.unaccepted_write_emits_nothing, C01.head_incomplete, C01.refines_partial / in_order_partial / pending_backed_partial (observations equal the id-keyed specification, responses in write order, each the join of its row) under NoRelink, join laws, pump FIFO. The unconditional refinement is refuted (C01.refines_full_false, decide witness) – that is the known finding relink-with-pending. Tied to the code by differential execution of one real Writer with up to 5 Readers (deferred drop notifications made explicit steps by a verif-tagged yield hook), 2.5k histories quick, 290k thorough incl. all histories of length ≤ 6 over 2 readers; independent Go oracle over the harness's write log.",
   note="Each public method of Writer/Reader is one atomic step (runs under the object's mutex; C20 checks the lock discipline); Go channels/scheduler modelled; payloads opaque. Known findings: relink-with-pending (answers have no request ids), close-discards-buffered (writer pump drops buffered responses when closed). Trusted: Lean kernel, harness, VerifReceive hook.",
   technique="Lean 4 proof (refinement to an abstract specification by simulation, invariants by induction over histories) + model/implementation differential correspondence"),
 "C04": dict(
   category="proof", design_ref="DESIGN.md §5 C04, §9.1",
   text="23 Lean theorems over all process forests and ALL schedules of the small-step machine of process.Process (one step per critical section: addHook, fork in two steps, exit flip, one hook per step, join): C04.hook_exactly_once (token conservation: every registration runs at most once, exactly once when its process is terminated and nothing of it is pending – registered before, during or after termination), C04.hook_gets_first_error, C04.reverse_order / reverse_order_log (early hooks run in reverse registration order in the log, across threads), C04.status_done_err_agree, C04.cascade / cascade_child, C04.join_after_children / join_return_after_children / wait_done_never_panics / wait_counter_accounting, C04.first_error_kept, C04.values_cleared_at_exit, C04.atomic_sections (every method of Process locks p.mu at exactly one site – regenerated from process.go). Tied to the code by replaying the same step schedules on real processes with goroutines parked in harness hooks (3.8k cases quick, 48k thorough) plus a free-running oracle.",
   note="mu.Lock…Unlock sections are atomic steps (granularity checked against the regenerated lock-fact table), WaitGroup is a counter (its misuse panics are outside the model); user hooks do not call back into the process. Trusted: Lean kernel, harness, extractor, goroutine wait states from runtime.Stack.",
   technique="Lean 4 proof (counting and ordering invariants over a small-step thread machine, all schedules) + model/implementation differential correspondence"),
 "C18": dict(
   category="proof", design_ref="DESIGN.md §5 C18",
   text="25 Lean theorems about the executable model of template.parse/execute, Meta.Bind/IsBound and Unstructured.Build (text/template itself is a parameter constrained only by hypotheses): C18.substitutes / substitutes_build / bind_then_build (every string leaf and key is replaced by its rendering and nothing else changes, for every nesting and every Go map iteration order), C18.plain_identity (action-free documents come back equal up to nil-vs-empty Fields), C18.bind_selects_* (exactly the value named by id / name / anonymous), C18.missing_rejected, C18.no_panic; the pinned-tree defects are refuted by decide witnesses. Tied to the code by differential execution (10k cases quick, 200k thorough, exhaustive selection sweep, corpus) with real text/template output supplied as a table.",
   note="text/template, reflect and map iteration order are modelled (parameter T with hypotheses Renders/PlainId checked per case by the harness; ord parameter quantified over all permutations). Only JSON-like documents are covered. Trusted: Lean kernel, correspondence harness.",
   technique="Lean 4 proof (structural induction over documents, parameterised by text/template) + model/implementation differential correspondence"),
 "C13": dict(
   category="proof", design_ref="DESIGN.md §5 C13",
   text="Lean theorems C13.events_exact (for every history of watch / per-document mutation / read / close / pump-exit steps and every watcher: delivered events are a prefix of, and delivered ++ queued equals, the accepted matching mutations between its Watch and Close, in order — exactly once, nothing lost before close), C13.writer_never_blocks / C13.pump_receptive_after_park / C13.pump_fifo (the pump goroutine's program-counter machine), C13.close_isolated. The model is tied to pkg/store/stream.go and store.go's Watch/emit by differential execution of a real store with up to 4 watchers against the model, plus a stalled-consumer run.",
   note="Filter matching and acceptance by the segment are parameters of the model (C10/C12's subject; the harness evaluates three watcher filter shapes itself). Go channel/select semantics of the pump are modelled (atomic rendezvous steps), 'promptly' is observed with timeouts, not proved. Trusted: Lean kernel, correspondence harness.",
   technique="Lean 4 proof (invariant by induction over operation histories; small-step pump machine) + model/implementation differential correspondence"),
 "C17": dict(
   category="proof", design_ref="DESIGN.md §5 C17",
   text="Lean theorem C17.group_pure: for every coherent decoder list, every warm-up history and every source, DecoderGroup.Decode's result equals the cold result (unbounded histories, kernel-checked). The model is tied to pkg/encoding/group.go by differential execution of the real DecoderGroup against the model on random decoder tables; the Coherent hypothesis for the real registry is checked by a cold/warm/concurrent oracle on the real codec.",
   note="Trusted: Lean kernel (+propext, Classical.choice, Quot.sound), the correspondence harness, types.VerifNewDecoder hook; Coherent for the real registry is observed (oracle), not proved; sync.Map/RWMutex atomicity assumed.",
   technique="Lean 4 proof (invariant by induction over decode histories) + model/implementation differential correspondence"),
}

NOT_YET = {}
for i in range(1, 21):
    pid = "C%02d" % i
    if pid not in CLAIMED:
        NOT_YET[pid] = "check not built yet (work in progress, see DESIGN.md §5 for the plan); not claimed"

m = {
 "version": 1,
 "setup_cmd": "bin/setup",
 "hooks": {
   "guard": "verif",
   "enable": "go build -tags verif (the harness module replaces github.com/siyul-park/uniflow with /repo)",
   "baseline_off_cmd": "cd /repo && for m in . ./cmd ./driver/mongo ./ext; do (cd $m && go test -mod=mod -vet=off -count=1 ./...) || exit 1; done",
   "source_commits": [l.split()[0] for l in os.popen("git -C /repo log --format='%h %s' 2d8b2f4..HEAD").read().splitlines() if l.split(None,1)[1].startswith("verif hook")],
   "add_only": True,
 },
 "engines": [
   {"name": "lean", "path": "lean/", "kind_free_text": "Lean 4 project: executable models (Uniflow/Model), property theorems (Uniflow/Props/Cnn.lean), core-only model driver `drv`",
    "serves_properties": sorted(CLAIMED)},
   {"name": "harness", "path": "harness/", "kind_free_text": "Go module built with -tags verif against /repo: generators, real-code runners, property oracles, differential comparison with the Lean driver, evidence writer",
    "serves_properties": sorted(CLAIMED)},
 ],
 "checks": [],
 "not_applicable": [{"property_id": k, "reason": v} for k, v in sorted(NOT_YET.items())],
 "notes": "bin/check <Cnn> <tier> rebuilds the Lean project and the harness from the current trees, re-checks the property's theorems (axiom audit), runs the model/implementation correspondence and the property oracle, writes evidence/<Cnn>.json.",
}
for pid in sorted(CLAIMED):
    c = CLAIMED[pid]
    m["checks"].append({
      "property_id": pid,
      "quick_cmd": f"bin/check {pid} quick",
      "thorough_cmd": f"bin/check {pid} thorough",
      "evidence_file": f"/verif/evidence/{pid}.json",
      "replay_cmd_template": "cat {path}",
      "engine": "lean+harness",
      "level_claimed": {"category": c["category"], "text": c["text"], "design_ref": c["design_ref"]},
      "level_note": c["note"],
      "technique": c["technique"],
    })
json.dump(m, open(os.path.join(V, "MANIFEST.json"), "w"), indent=1)
print("MANIFEST.json:", len(m["checks"]), "claimed,", len(m["not_applicable"]), "not claimed")
