module verifmut

go 1.23
