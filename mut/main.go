// Command mut enumerates and applies single-token mutants of a Go source file. It is a self-test tool of
// /verif (bin/mutsweep): the mutants are applied to a scratch checkout only, never to /repo.
//
//	mut list <file>          one line per mutation point: index, line, kind, description
//	mut apply <file> <k>     rewrites <file> in place with mutation point k applied
//
// The source text is edited at token positions, so everything but the mutated token stays byte-identical.
package main

import (
	"fmt"
	"go/ast"
	"go/parser"
	"go/token"
	"os"
	"sort"
	"strconv"
)

type edit struct {
	off, end int
	repl     string
	line     int
	kind     string
	desc     string
}

var swaps = map[token.Token]token.Token{
	token.LSS: token.LEQ, token.LEQ: token.LSS, token.GTR: token.GEQ, token.GEQ: token.GTR,
	token.EQL: token.NEQ, token.NEQ: token.EQL, token.LAND: token.LOR, token.LOR: token.LAND,
	token.ADD: token.SUB, token.SUB: token.ADD,
}

func main() {
	if len(os.Args) < 3 {
		fmt.Fprintln(os.Stderr, "usage: mut list <file> | mut apply <file> <k>")
		os.Exit(2)
	}
	path := os.Args[2]
	src, err := os.ReadFile(path)
	if err != nil {
		panic(err)
	}
	fset := token.NewFileSet()
	f, err := parser.ParseFile(fset, path, src, parser.ParseComments)
	if err != nil {
		panic(err)
	}
	var edits []edit
	off := func(p token.Pos) int { return fset.Position(p).Offset }
	line := func(p token.Pos) int { return fset.Position(p).Line }
	text := func(a, b token.Pos) string { return string(src[off(a):off(b)]) }
	ast.Inspect(f, func(n ast.Node) bool {
		switch v := n.(type) {
		case *ast.BinaryExpr:
			if to, ok := swaps[v.Op]; ok {
				// string concatenation has no subtraction
				if v.Op == token.ADD {
					if bl, ok := v.X.(*ast.BasicLit); ok && bl.Kind == token.STRING {
						return true
					}
					if bl, ok := v.Y.(*ast.BasicLit); ok && bl.Kind == token.STRING {
						return true
					}
				}
				edits = append(edits, edit{off(v.OpPos), off(v.OpPos) + len(v.Op.String()), to.String(), line(v.OpPos), "binop",
					fmt.Sprintf("%s -> %s in `%s`", v.Op, to, text(v.Pos(), v.End()))})
			}
		case *ast.UnaryExpr:
			if v.Op == token.NOT {
				edits = append(edits, edit{off(v.OpPos), off(v.OpPos) + 1, "", line(v.OpPos), "unnot", fmt.Sprintf("drop ! in `%s`", text(v.Pos(), v.End()))})
			}
		case *ast.IfStmt:
			if _, isNot := v.Cond.(*ast.UnaryExpr); !isNot {
				c := text(v.Cond.Pos(), v.Cond.End())
				edits = append(edits, edit{off(v.Cond.Pos()), off(v.Cond.End()), "!(" + c + ")", line(v.Cond.Pos()), "negif", fmt.Sprintf("negate `if %s`", c)})
			}
		case *ast.BranchStmt:
			if v.Label == nil && (v.Tok == token.BREAK || v.Tok == token.CONTINUE) {
				to := "continue"
				if v.Tok == token.CONTINUE {
					to = "break"
				}
				edits = append(edits, edit{off(v.Pos()), off(v.End()), to, line(v.Pos()), "branch", fmt.Sprintf("%s -> %s", v.Tok, to)})
			}
		case *ast.BasicLit:
			if v.Kind == token.INT {
				if k, err := strconv.Atoi(v.Value); err == nil && k <= 2 {
					edits = append(edits, edit{off(v.Pos()), off(v.End()), strconv.Itoa(k + 1), line(v.Pos()), "intlit", fmt.Sprintf("%d -> %d", k, k+1)})
				}
			}
		case *ast.Ident:
			if v.Name == "true" || v.Name == "false" {
				to := "false"
				if v.Name == "false" {
					to = "true"
				}
				edits = append(edits, edit{off(v.Pos()), off(v.End()), to, line(v.Pos()), "bool", v.Name + " -> " + to})
			}
		case *ast.ExprStmt:
			// delete a call statement (method or function call whose results are unused)
			if _, ok := v.X.(*ast.CallExpr); ok {
				edits = append(edits, edit{off(v.Pos()), off(v.End()), "", line(v.Pos()), "delcall", fmt.Sprintf("delete `%s`", text(v.Pos(), v.End()))})
			}
		case *ast.IncDecStmt:
			to := "--"
			if v.Tok == token.DEC {
				to = "++"
			}
			edits = append(edits, edit{off(v.TokPos), off(v.TokPos) + 2, to, line(v.TokPos), "incdec", v.Tok.String() + " -> " + to})
		}
		return true
	})
	sort.SliceStable(edits, func(i, j int) bool { return edits[i].off < edits[j].off })
	switch os.Args[1] {
	case "list":
		for i, e := range edits {
			fmt.Printf("%d\t%d\t%s\t%s\n", i, e.line, e.kind, e.desc)
		}
	case "apply":
		k, err := strconv.Atoi(os.Args[3])
		if err != nil || k < 0 || k >= len(edits) {
			fmt.Fprintln(os.Stderr, "no such mutation point")
			os.Exit(2)
		}
		e := edits[k]
		out := append([]byte{}, src[:e.off]...)
		out = append(out, e.repl...)
		out = append(out, src[e.end:]...)
		if err := os.WriteFile(path, out, 0o644); err != nil {
			panic(err)
		}
		fmt.Printf("%s:%d %s %s\n", path, e.line, e.kind, e.desc)
	}
}
